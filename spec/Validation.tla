------------------------------ MODULE Validation ------------------------------
(***************************************************************************)
(* C17 - validation reports exactly the failing fields and rules, after a   *)
(* full load.                                                               *)
(*                                                                          *)
(* A  (abstract, property level): the documented rules as mathematics.      *)
(*    A class is a list of fields; a field has a type, an ordered list of   *)
(*    validators and a status in the document.  A prescribes the map        *)
(*    path -> ordered messages, whether ValidationException is thrown, the  *)
(*    meaning of maxValidationErrors and the values of the passing fields.  *)
(* M  (implementation shaped): SplitAndSerialize + AddValidationError of    *)
(*    the code: one call per failing validator, the size of the map is      *)
(*    compared with the cap after every call.  The unchanged tree deviates  *)
(*    from A (Dev_ValidationCapTruncatesLastField); MFixed is the repaired  *)
(*    shape (errors of one field are added together, then the cap).         *)
(*                                                                          *)
(* Sources of A: README "Validation of deserialized values" (rules table,   *)
(* "thrown at the end of deserialization (when all errors have been         *)
(* collected)", "paths to fields with errors lists"), serialization_options *)
(* .h (maxValidationErrors: "maximum number of validation errors that will  *)
(* be collected before an exception is thrown ... 0 means unlimited ...     *)
(* Number of errors for each particular field is unlimited in any case"),   *)
(* the comments of validators.h ("Automatically pass if value is not        *)
(* loaded"), docs/bitserializer_pugixml.md (names "root"/"array"/"object"). *)
(* Default message texts are transcribed from validators.h.                 *)
(***************************************************************************)
EXTENDS Integers, Sequences, FiniteSets, TLC

-----------------------------------------------------------------------------
(* Validators: uniform records [k, a, b, msg];  msg = "" means default text *)
(*   req | range(a..b) | minsize(a) | maxsize(a) | email | phone(a..b digits,*)
(*   plus required) | phonenp(a..b, plus optional) | custom (a user lambda)  *)
V(k, a, b, msg) == [k |-> k, a |-> a, b |-> b, msg |-> msg]

\* field types: int, std::string, std::optional<int>, std::vector<int>, std::vector<std::string>,
\* std::map<std::string,int>, a nested object {x:int}
\* "wstr" = std::u16string (its document value is the sequence of its code points)
Types == {"int", "str", "wstr", "optint", "vecint", "vecstr", "mapint", "obj"}
Sized == {"str", "wstr", "vecint", "vecstr", "mapint"}   \* types with size()

\* which validators can be attached to which field type (C++: Range<int> on int, size() for MinSize/MaxSize,
\* string_view for Email/PhoneNumber; the scenario's lambda exists for numbers, strings and the nested object)
Applicable(v, t) ==
  CASE v.k = "req" -> TRUE
    [] v.k = "custom" -> t \in {"int", "optint", "str", "obj"}
    [] v.k = "range" -> t = "int"
    [] v.k \in {"minsize", "maxsize"} -> t \in Sized
    [] v.k \in {"email", "phone", "phonenp"} -> t \in {"str", "wstr"}

-----------------------------------------------------------------------------
(* Documents.  doc of a field: <<"int", n>> | <<"str", s>> | <<"ints", <<n..>>>> | <<"strs", <<s..>>>> |       *)
(*   <<"imap", << <<key, n>>.. >>>> | <<"obj", x>> (object {x}) | <<"absent">> | <<"null">>                        *)
(* A value of another kind than the field's type (a string for a number, a number for a string or a container)    *)
(* is mismatched: skipped = not loaded with MismatchedTypesPolicy::Skip, SerializationException(MismatchedTypes)   *)
(* with the default policy ThrowError.  null and absent are "not loaded" under both policies.                      *)
KindOf(t) == CASE t \in {"int", "optint"} -> "int" [] t = "str" -> "str" [] t = "wstr" -> "wstr" [] t = "vecint" -> "ints" [] t = "vecstr" -> "strs"
               [] t = "mapint" -> "imap" [] t = "obj" -> "obj"
IsLoaded(t, doc) == doc[1] = KindOf(t)
IsMismatch(t, doc) == doc[1] \notin {"absent", "null", KindOf(t)}
Size(doc) == Len(doc[2])                                  \* size() of a loaded string / container

\* value of the target after the load of a field that was / was not loaded (harness: val_harness.cpp VObj)
LoadedValue(t, doc) == IF t = "optint" THEN <<"some", doc[2]>> ELSE doc
PriorValue(t) ==
  CASE t = "int" -> <<"int", 77>> [] t = "str" -> <<"str", "prior">> [] t = "optint" -> <<"none">>
    [] t = "wstr" -> <<"wstr", <<112, 114, 105, 111, 114>>>>
    [] t = "vecint" -> <<"ints", <<>>>> [] t = "vecstr" -> <<"strs", <<>>>> [] t = "mapint" -> <<"imap", <<>>>> [] t = "obj" -> <<"obj", 77>>

-----------------------------------------------------------------------------
(* Email / PhoneNumber: bound only on the documented examples (README table, README sample, validators_tests.cpp). *)
(* Their grammar is not part of the property's stated semantics: a string outside these tables is out of scope.  *)
EmailValid   == {"simple@example.com", "very.common@example.com", "x@example.com", "admin@example", "admin@example10.com",
                 "admin@best-example.com", "0123456789@example.com"}
EmailInvalid == {"abc.example.com", "a@b@example.com", "first last@example.com", "smith 2000@mail.com",       \* no @, two @, space
                 "@", ".name@example.com", "name.@example.com", "first..last@example.com",                    \* dots in the local part
                 "john(doe)@example.org)", "john<doe>@example.org)",                                          \* characters not allowed
                 "john_doe@", "john_doe@-example.com", "john_doe@example.com-", "john_doe@10example.com",     \* domain part
                 "john_doe@example com", "john_doe@example_com"}

\* Phone examples (README, validators_tests.cpp).  Facts per string, transcribed by reading PhoneNumber::operator():
\*   d = number of digits, plus = starts with '+', err = the error the character loop stops with ("" = none),
\*   open = a parenthesis is open when the loop ends
PhDash  == "Invalid phone number (dashes should be used to separate numbers)"
PhNest  == "Invalid phone number (contains nested parentheses)"
PhClose == "Invalid phone number (invalid closing parenthesis)"
PhChars == "Invalid phone number (contains invalid characters)"
PhF(d, plus, err, open) == [d |-> d, plus |-> plus, err |-> err, open |-> open]
PhoneFacts(s) ==
  CASE s = "+555 (55) 555-55-55" -> PhF(12, TRUE, "", FALSE)
    [] s = "+44 20 7123 1234"    -> PhF(12, TRUE, "", FALSE)
    [] s = "+1 (555) 555-55-55"  -> PhF(11, TRUE, "", FALSE)
    [] s = "+91-22-27782183"     -> PhF(12, TRUE, "", FALSE)
    [] s = "(55) 555 55 55"      -> PhF(9, FALSE, "", FALSE)
    [] s = "555 5 55 55"         -> PhF(8, FALSE, "", FALSE)
    [] s = "+12345"              -> PhF(5, TRUE, "", FALSE)
    [] s = "+1234567890123"      -> PhF(13, TRUE, "", FALSE)
    [] s = "+1 ((555)) 555-55-55" -> PhF(1, TRUE, PhNest, TRUE)
    [] s = "+1 (555 555-55-55"   -> PhF(11, TRUE, "", TRUE)
    [] s = "+1 (555) )555-55-55" -> PhF(4, TRUE, PhClose, FALSE)
    [] s = "+1 () 555-55-55"     -> PhF(1, TRUE, PhClose, TRUE)
    [] s = "+1 555 555-55-55 )"  -> PhF(11, TRUE, PhClose, FALSE)
    [] s = "+1 555 555-55-55 ()" -> PhF(11, TRUE, PhClose, TRUE)
    [] s = "-1 (555) 555-5555"   -> PhF(0, FALSE, PhDash, FALSE)
    [] s = "-(555) 555-5555"     -> PhF(0, FALSE, PhDash, FALSE)
    [] s = "+1 (555) 555--5555"  -> PhF(7, TRUE, PhDash, FALSE)
    [] s = "+1 (555) 555-5555-"  -> PhF(11, TRUE, PhDash, FALSE)
    [] s = "+1 (555) -555-55-55" -> PhF(4, TRUE, PhDash, FALSE)
    [] s = "+1 (-555) 555-55-55" -> PhF(1, TRUE, PhDash, TRUE)
    [] s = "+1 (555-) 555-55-55" -> PhF(4, TRUE, PhClose, TRUE)
    [] s = "*1 (555) 555-55-55"  -> PhF(0, FALSE, PhChars, FALSE)
    [] s = "1 (555) 555-55-55$"  -> PhF(11, FALSE, PhChars, FALSE)
    [] s = "1 (555) 555-55=55"   -> PhF(9, FALSE, PhChars, FALSE)
PhoneExamples == {"+555 (55) 555-55-55", "+44 20 7123 1234", "+1 (555) 555-55-55", "+91-22-27782183", "(55) 555 55 55", "555 5 55 55",
                  "+12345", "+1234567890123", "+1 ((555)) 555-55-55", "+1 (555 555-55-55", "+1 (555) )555-55-55", "+1 () 555-55-55",
                  "+1 555 555-55-55 )", "+1 555 555-55-55 ()", "-1 (555) 555-5555", "-(555) 555-5555", "+1 (555) 555--5555",
                  "+1 (555) 555-5555-", "+1 (555) -555-55-55", "+1 (-555) 555-55-55", "+1 (555-) 555-55-55", "*1 (555) 555-55-55",
                  "1 (555) 555-55-55$", "1 (555) 555-55=55"}

\* Wide strings (std::u16string fields).  The address / number is the code-point sequence of a documented ASCII example,
\* or that example with ONE character replaced by a non-ASCII character (c + 0x100, c + 0x400: same low byte).  The README:
\* the Email validator does not support SMTPUTF8, i.e. an address with a non-ASCII character is invalid; a phone number
\* with a character that is neither digit, space, dash, parenthesis nor the leading plus "contains invalid characters".
WSimple  == <<115, 105, 109, 112, 108, 101, 64, 101, 120, 97, 109, 112, 108, 101, 46, 99, 111, 109>>                   \* simple@example.com
WAdmin10 == <<97, 100, 109, 105, 110, 64, 101, 120, 97, 109, 112, 108, 101, 49, 48, 46, 99, 111, 109>>                  \* admin@example10.com
WBestEx  == <<97, 100, 109, 105, 110, 64, 98, 101, 115, 116, 45, 101, 120, 97, 109, 112, 108, 101, 46, 99, 111, 109>>   \* admin@best-example.com
WDigits  == <<48, 49, 50, 51, 52, 53, 54, 55, 56, 57, 64, 101, 120, 97, 109, 112, 108, 101, 46, 99, 111, 109>>          \* 0123456789@example.com
WPhone1  == <<43, 53, 53, 53, 32, 40, 53, 53, 41, 32, 53, 53, 53, 45, 53, 53, 45, 53, 53>>                              \* +555 (55) 555-55-55
Alias(w, pos, off) == [w EXCEPT ![pos] = @ + off]
WEmailValid == {WSimple, WAdmin10, WBestEx, WDigits}
\* aliased positions: first / last character of the local part, '@', first domain character, '.', last character;
\* a digit of the domain; the hyphen; a digit of the local part
WAliasOf(w, ps) == { Alias(w, p, off) : p \in ps, off \in {256, 1024} }
WEmailInvalid == WAliasOf(WSimple, {1, 6, 7, 8, 15, 18}) \cup WAliasOf(WAdmin10, {14}) \cup WAliasOf(WBestEx, {11}) \cup WAliasOf(WDigits, {1, 10})
WPhoneExamples == {WPhone1} \cup WAliasOf(WPhone1, {2, 7, 13, 19})
\* (position 7 is inside the parentheses: the loop stops there with the parenthesis still open)
WPhoneFacts(w) == IF w = WPhone1 THEN PhF(12, TRUE, "", FALSE) ELSE PhF(0, TRUE, PhChars, w \in WAliasOf(WPhone1, {7}))

\* "" = passes, otherwise the default message (texts and their precedence transcribed from validators.h: an open
\* parenthesis wins over the missing plus, which wins over the error of the character loop; the number of digits is
\* examined only for a well-formed number; one text for min = max, another for min < max)
PhoneVerdict(v, t, s) ==
  LET f == IF t = "wstr" THEN WPhoneFacts(s) ELSE PhoneFacts(s) IN
  IF f.open THEN "Invalid phone number (missing closing parenthesis)"
  ELSE IF v.k = "phone" /\ ~f.plus THEN "Invalid phone number (missing initial `+`)"
  ELSE IF f.err # "" THEN f.err
  ELSE IF f.d < v.a \/ f.d > v.b THEN
         (IF v.a = v.b THEN "Invalid phone number (must contain " \o ToString(v.a) \o " digits)"
          ELSE "Invalid phone number (the number of digits must be from " \o ToString(v.a) \o " to " \o ToString(v.b) \o ")")
  ELSE ""

\* strings of the model that contain a space (the README's custom lambda: "The field must not contain spaces")
WithSpace == {"a b", "first last@example.com", "smith 2000@mail.com", "john_doe@example com"}
             \cup (PhoneExamples \ {"+91-22-27782183", "+12345", "+1234567890123"})

\* is the verdict of validator v on document value doc stated by the documentation?
InScopeV(v, t, doc) ==
  IF ~IsLoaded(t, doc) THEN TRUE
  ELSE IF v.k = "email" THEN (IF t = "wstr" THEN doc[2] \in WEmailValid \cup WEmailInvalid ELSE doc[2] \in EmailValid \cup EmailInvalid)
  ELSE IF v.k \in {"phone", "phonenp"} THEN (IF t = "wstr" THEN doc[2] \in WPhoneExamples ELSE doc[2] \in PhoneExamples)
  ELSE TRUE

-----------------------------------------------------------------------------
(* The documented rules *)
Fails(v, t, doc) ==
  LET L == IsLoaded(t, doc) IN
  CASE v.k = "req"     -> ~L                                             \* fails iff the field was not loaded
    [] v.k = "range"   -> L /\ (doc[2] < v.a \/ doc[2] > v.b)             \* inclusive, passes when not loaded
    [] v.k = "minsize" -> L /\ Size(doc) < v.a                          \* strings and containers alike
    [] v.k = "maxsize" -> L /\ Size(doc) > v.a
    [] v.k = "email"   -> L /\ (IF t = "wstr" THEN doc[2] \in WEmailInvalid ELSE doc[2] \in EmailInvalid)
    [] v.k \in {"phone", "phonenp"} -> L /\ PhoneVerdict(v, t, doc[2]) # ""
    [] v.k = "custom"  -> L /\ (IF t = "str" THEN doc[2] \in WithSpace ELSE (doc[2] % 2) # 0)   \* the scenario's lambda

DefaultMsg(v, t, doc) ==
  CASE v.k = "req"     -> "This field is required"
    [] v.k = "range"   -> "Value must be between " \o ToString(v.a) \o " and " \o ToString(v.b)
    [] v.k = "minsize" -> "The minimum size of this field should be " \o ToString(v.a)
    [] v.k = "maxsize" -> "The maximum size of this field should be not greater than " \o ToString(v.a)
    [] v.k = "email"   -> "Invalid email address"
    [] v.k \in {"phone", "phonenp"} -> PhoneVerdict(v, t, doc[2])
    [] v.k = "custom"  -> IF t = "str" THEN "The field must not contain spaces" ELSE "The value must be even"

Msg(v, t, doc) == IF v.msg # "" THEN v.msg ELSE DefaultMsg(v, t, doc)

\* messages of the failing validators of one field, in declaration order
RECURSIVE FailMsgsFrom(_, _)
FailMsgsFrom(f, j) ==
  IF j > Len(f.vs) THEN <<>>
  ELSE IF Fails(f.vs[j], f.t, f.doc) THEN <<Msg(f.vs[j], f.t, f.doc)>> \o FailMsgsFrom(f, j + 1)
  ELSE FailMsgsFrom(f, j + 1)
FailMsgs(f) == FailMsgsFrom(f, 1)

-----------------------------------------------------------------------------
(* Classes and placements.  Scenario s = [place, nel, cap, pol, fields]; field = [key, t, st, doc, vs];   *)
(* pol = "skip" | "throw" (mismatchedTypesPolicy).                                                        *)
(*  flat    : the validated class is the root object                       path  /key                    *)
(*  nested  : root object with member "n" of the validated class                 /n/key                  *)
(*  arr     : root object with member "arr" = array of nel objects               /arr/<i>/key            *)
(*  map     : root object with member "m" = map "k1".."k<nel>" -> object         /m/k<i>/key             *)
(*  rootarr : the root is an array of nel objects (the only shape of CSV)        /<i>/key                *)
(* All elements of a container carry the same fields and statuses.                                          *)
(*  attr    : XML only - the fields are ATTRIBUTES of the root element (AttributeValue)  /root/key          *)
Places == {"flat", "nested", "arr", "map", "rootarr", "attr"}
IsArrayPlace(p) == p \in {"arr", "rootarr"}

Idx(i) == "#" \o ToString(i)          \* an array position inside an abstract path
ElemComps(s, e) ==
  CASE s.place \in {"flat", "attr"} -> <<>>
    [] s.place = "nested"  -> <<"n">>
    [] s.place = "arr"     -> <<"arr", Idx(e)>>
    [] s.place = "map"     -> <<"m", "k" \o ToString(e)>>
    [] s.place = "rootarr" -> <<Idx(e)>>

\* verdict of every validator of a field, in declaration order: "" = passes, otherwise the message it reports
Verdicts(f) == SubSeq([j \in 1..Len(f.vs) |-> IF Fails(f.vs[j], f.t, f.doc) THEN Msg(f.vs[j], f.t, f.doc) ELSE ""], 1, Len(f.vs))

\* field instances in load order: element by element, fields in declaration order
\* (vr = Verdicts, msgs = FailMsgs of the field: derived, kept in the record so that TLC evaluates them once)
NF(s) == Len(s.fields)
Instances(s) ==
  LET per == SubSeq([k \in 1..NF(s) |-> [f |-> s.fields[k], vr |-> Verdicts(s.fields[k]), msgs |-> FailMsgs(s.fields[k])]], 1, NF(s))
  IN SubSeq([i \in 1..(s.nel * NF(s)) |->
               LET e == ((i - 1) \div NF(s)) + 1
                   k == ((i - 1) % NF(s)) + 1
               IN [comps |-> Append(ElemComps(s, e), s.fields[k].key), f |-> per[k].f, vr |-> per[k].vr, msgs |-> per[k].msgs]],
            1, s.nel * NF(s))

IsIdx(c) == c \in {Idx(1), Idx(2), Idx(3), Idx(4)}
RECURSIVE JoinPath(_, _)
JoinPath(comps, star) ==
  IF comps = <<>> THEN ""
  ELSE "/" \o (IF star /\ IsIdx(comps[1]) THEN "*" ELSE comps[1]) \o JoinPath(Tail(comps), star)

\* Named deviation Dev_MsgPackStreamParentKeyView (MsgPack archive loaded from a std::istream): the key of an object scope
\* that has an open child scope is a string_view into the stream reader's single string buffer, which every later key or
\* string read overwrites; GetPath() of the child scopes therefore renders the PARENT keys from foreign bytes.  Those
\* bytes depend only on the field being validated, so two elements of a map collapse into one path.  Model: every parent
\* key component is "?" (array positions and the field's own key are intact).
\* (identity of the paths inside the std::map of errors; keepElem: the key of a map element is still the last string read
\* when its object has no members, i.e. when every field is absent)
GarbleParents(comps, keepElem) ==
  [k \in 1..Len(comps) |-> IF k = Len(comps) \/ IsIdx(comps[k]) \/ (keepElem /\ k = 2) THEN comps[k] ELSE "?"]
\* Sub-case in which not even the identity of the paths can be stated: a loaded string longer than the buffer's initial
\* (small-string) capacity of 15 bytes reallocates the buffer, the parent views then refer to freed memory, and the bytes
\* seen for the keys of two map elements differ unpredictably - this only matters where path identity decides, i.e. for
\* the count against the cap with two map elements.
DevUndefined_MsgPackStreamParentKeyView(s) ==
  s.place = "map" /\ s.nel > 1 /\ s.cap > 0 /\ \E k \in 1..Len(s.fields) : s.fields[k].doc[1] = "str" /\ Len(s.fields[k].doc[2]) > 15
DevGuard_MsgPackStreamParentKeyView(s) == s.place \in {"nested", "arr", "map"}      \* the path has a parent key

\* path as reported by an archive, array positions replaced by '*' (the property: "array positions aside").
\* JSON: JSON Pointer (README); MsgPack, CSV: the same shape; XML: element names from the document element
\* ("root" for an unnamed root object, "array" for an unnamed root array - docs/bitserializer_pugixml.md).
NormPath(fam, s, comps) ==
  IF fam = "mpstream" THEN JoinPath([k \in 1..Len(comps) |-> IF k < Len(comps) THEN "?" ELSE comps[k]], TRUE)
       \* rendering under Dev_MsgPackStreamParentKeyView: foreign bytes may look like anything (also like a position), so
       \* every component but the field's own key is compared as "?"
  ELSE (IF fam = "xml" THEN (IF s.place = "rootarr" THEN "/array" ELSE "/root") ELSE "") \o JoinPath(comps, TRUE)
RealPath(comps) == JoinPath(comps, FALSE)


-----------------------------------------------------------------------------
(* A: what the caller must observe.  `inst` is always Instances(s) (passed so that it is evaluated once). *)
RECURSIVE FailingFrom(_, _)
FailingFrom(inst, i) ==
  IF i > Len(inst) THEN <<>>
  ELSE IF inst[i].msgs # <<>> THEN <<i>> \o FailingFrom(inst, i + 1) ELSE FailingFrom(inst, i + 1)

Min(a, b) == IF a < b THEN a ELSE b

\* Meaning of the cap when more fields fail than the cap (decided from the documentation, not from the code):
\* "the maximum number of validation errors that will be collected before an exception is thrown" + "number of errors for
\* each particular field is unlimited in any case"  =>  exactly `cap` FIELDS are reported, the first ones in load order,
\* each with all of its messages; the load ends at the cap-th failing field.
\* With the default policy (ThrowError) a mismatched value ends the load with SerializationException(MismatchedTypes)
\* ("When a type from the archive does not match to the target value (can be configured via MismatchedTypesPolicy)"):
\* only the fields before it are validated, and what was collected is not reported (mm = TRUE) - unless the cap ended
\* the load with a ValidationException before.
\* result: rep = reported entries [i (instance index), msgs] in load order; stop = index of the instance at which the
\* load ends early (cap reached), or 0; mm = the load ends with the MismatchedTypes error
FirstMismatch(s, inst) ==
  IF s.pol = "throw" /\ \E i \in 1..Len(inst) : IsMismatch(inst[i].f.t, inst[i].f.doc)
  THEN CHOOSE i \in 1..Len(inst) : IsMismatch(inst[i].f.t, inst[i].f.doc) /\ \A q \in 1..(i - 1) : ~IsMismatch(inst[q].f.t, inst[q].f.doc)
  ELSE 0
A(s, inst) ==
  LET mmAt == FirstMismatch(s, inst)
      failing == FailingFrom(IF mmAt = 0 THEN inst ELSE SubSeq(inst, 1, mmAt - 1), 1)
      n == IF s.cap = 0 THEN Len(failing) ELSE Min(s.cap, Len(failing))         \* the cap limits the number of FIELDS
      stop == IF s.cap > 0 /\ Len(failing) >= s.cap THEN failing[s.cap] ELSE 0
      mm == mmAt # 0 /\ stop = 0
  IN [rep  |-> IF mm THEN <<>> ELSE SubSeq([j \in 1..n |-> [i |-> failing[j], msgs |-> inst[failing[j]].msgs]], 1, n),
      exc  |-> ~mm /\ n > 0,                                                   \* ValidationException iff something fails
      stop |-> stop,
      mm   |-> mm]

\* the named deviation of the unchanged tree: the exception is thrown from inside AddValidationError as soon as the map
\* holds `cap` paths, i.e. after the FIRST failing validator of the cap-th failing field; its further messages are lost.
\* (a = A(s, inst))
DevGuard_ValidationCapTruncatesLastField(a) == a.stop # 0 /\ Len(a.rep[Len(a.rep)].msgs) >= 2
ADev(a) ==
  LET n == Len(a.rep) IN
  IF DevGuard_ValidationCapTruncatesLastField(a) THEN [a EXCEPT !.rep[n].msgs = <<@[1]>>] ELSE a

-----------------------------------------------------------------------------
(* M: the code's own algorithm.  st = [map: sequence of [i, path, msgs] (std::map keyed by path), thrown, stop]  *)
MapFind(map, path) == IF \E k \in 1..Len(map) : map[k].path = path THEN CHOOSE k \in 1..Len(map) : map[k].path = path ELSE 0

\* SerializationContext::AddValidationError (unchanged tree)
AddValidationError(st, cap, i, path, msg) ==
  LET k == MapFind(st.map, path)
      map1 == IF k = 0 THEN Append(st.map, [i |-> i, path |-> path, msgs |-> <<msg>>])
              ELSE [st.map EXCEPT ![k].msgs = Append(@, msg)]
  IN IF cap > 0 /\ Len(map1) = cap THEN [map |-> map1, thrown |-> TRUE, stop |-> i, mm |-> FALSE]      \* OnFinishSerialization() throws now
     ELSE [st EXCEPT !.map = map1]

\* repaired shape: all messages of the field first, then the comparison with the cap
AddValidationErrors(st, cap, i, path, msgs) ==
  LET k == MapFind(st.map, path)
      map1 == IF k = 0 THEN Append(st.map, [i |-> i, path |-> path, msgs |-> msgs])
              ELSE [st.map EXCEPT ![k].msgs = @ \o msgs]
  IN IF cap > 0 /\ Len(map1) = cap THEN [map |-> map1, thrown |-> TRUE, stop |-> i, mm |-> FALSE]
     ELSE [st EXCEPT !.map = map1]

\* path handed to the context: the scope's GetPath() + separator + key
\* garble: "no" | "all" | "keepelem"
MPath(comps, garble) == RealPath(IF garble = "no" THEN comps ELSE GarbleParents(comps, garble = "keepelem"))

RECURSIVE MValidators(_, _, _, _, _, _)
MValidators(st, cap, i, ins, j, garble) ==     \* KeyValue::VisitArgs: validators in declaration order
  IF st.thrown \/ j > Len(ins.vr) THEN st
  ELSE IF ins.vr[j] # ""
       THEN MValidators(AddValidationError(st, cap, i, MPath(ins.comps, garble), ins.vr[j]), cap, i, ins, j + 1, garble)
       ELSE MValidators(st, cap, i, ins, j + 1, garble)

RECURSIVE MFields(_, _, _, _, _, _, _)
MFields(st, cap, insts, i, fixed, garble, pol) ==
  IF st.thrown \/ st.mm \/ i > Len(insts) THEN st
  ELSE IF pol = "throw" /\ IsMismatch(insts[i].f.t, insts[i].f.doc) THEN [st EXCEPT !.mm = TRUE]     \* Serialize() of the value throws
  ELSE LET st1 == IF fixed
                  THEN (IF insts[i].msgs = <<>> THEN st ELSE AddValidationErrors(st, cap, i, MPath(insts[i].comps, garble), insts[i].msgs))
                  ELSE MValidators(st, cap, i, insts[i], 1, garble)
       IN MFields(st1, cap, insts, i + 1, fixed, garble, pol)

\* LoadObject: ... SplitAndSerialize ... context.OnFinishSerialization()
MG(s, inst, fixed, garble) ==
  LET st == MFields([map |-> <<>>, thrown |-> FALSE, stop |-> 0, mm |-> FALSE], s.cap, inst, 1, fixed, garble, s.pol)
  IN [rep  |-> IF st.mm THEN <<>> ELSE SubSeq([k \in 1..Len(st.map) |-> [i |-> st.map[k].i, msgs |-> st.map[k].msgs]], 1, Len(st.map)),
      exc  |-> ~st.mm /\ (st.thrown \/ st.map # <<>>),
      stop |-> st.stop,
      mm   |-> st.mm]
M(s, inst, fixed) == MG(s, inst, fixed, "no")
MGarbled(s, inst) ==
  MG(s, inst, TRUE, IF s.place = "map" /\ (\A k \in 1..Len(s.fields) : s.fields[k].doc[1] = "absent") THEN "keepelem" ELSE "all")

-----------------------------------------------------------------------------
(* The observation the harness logs, as prescribed by a result r (of A, ADev or M):                          *)
(*   exc  : <<"validation">> | <<"none">>                                                                    *)
(*   errs : sequence of <<normalised path, messages>>; entries whose normalised paths coincide are merged in *)
(*          load order (this is all that "array positions aside" leaves of two elements of one array)         *)
(*   vals : values of all field instances in load order; <<"any">> where nothing is prescribed (failing      *)
(*          fields, fields after an early end); <<"unspecified">> as a whole when the load ends early inside *)
(*          a container (the state of a partly loaded container is not part of the property)                 *)
RECURSIVE MergeErrs(_, _, _, _, _)
MergeErrs(fam, s, inst, rep, acc) ==
  IF rep = <<>> THEN acc
  ELSE LET p == NormPath(fam, s, inst[rep[1].i].comps)
           hit == {k \in 1..Len(acc) : acc[k][1] = p}
       IN MergeErrs(fam, s, inst, Tail(rep),
                    IF hit = {} THEN Append(acc, <<p, rep[1].msgs>>)
                    ELSE LET k == CHOOSE k \in hit : TRUE IN [acc EXCEPT ![k] = <<p, @[2] \o rep[1].msgs>>])

Errs(fam, s, inst, r) == MergeErrs(fam, s, inst, r.rep, <<>>)

ValsUnspecified(s, r) == r.mm \/ (r.stop # 0 /\ s.place \notin {"flat", "nested"})
Vals(s, inst, r) ==
  IF ValsUnspecified(s, r) THEN <<"unspecified">>
  ELSE [i \in 1..Len(inst) |->
          LET f == inst[i].f IN
          IF r.stop # 0 /\ i > r.stop THEN <<"any">>
          ELSE IF inst[i].msgs # <<>> THEN <<"any">>
          ELSE IF IsLoaded(f.t, f.doc) THEN LoadedValue(f.t, f.doc) ELSE PriorValue(f.t)]     \* passing fields are loaded normally

Obs(s, inst, r) == [exc |-> IF r.mm THEN <<"ser", "Mismatched types">> ELSE IF r.exc THEN <<"validation">> ELSE <<"none">>,
                    errs |-> Errs("json", s, inst, r), errsxml |-> Errs("xml", s, inst, r), vals |-> Vals(s, inst, r)]
\* observation under Dev_MsgPackStreamParentKeyView (r = MGarbled(s, inst)); errs with parent keys rendered as "?"
ObsGarbled(s, inst, r) == [exc |-> IF r.mm THEN <<"ser", "Mismatched types">> ELSE IF r.exc THEN <<"validation">> ELSE <<"none">>,
                           errs |-> Errs("mpstream", s, inst, r), errsxml |-> <<>>, vals |-> Vals(s, inst, r)]

-----------------------------------------------------------------------------
(* Archives on which a scenario is meaningful (data-model facts, not judgements):                                 *)
(*  - CSV holds only an array of flat objects; a table without columns or with an empty text cell cannot express   *)
(*    absent-vs-null for strings (a null string is an empty cell = an empty string)                                *)
(*  - XML and CSV are untyped text: a number is a valid rendering of a string (no mismatch exists)                  *)
(*  - XML: an element without children is an empty value, not an object: a nested object whose fields are all       *)
(*    absent cannot be expressed                                                                                   *)
(*  - XML element paths carry no array position: equal fields of two elements are one path, so the number of       *)
(*    "fields" counted against the cap is not defined when the cap is not reached inside the first element          *)
Archs(s) ==
  LET F(k) == s.fields[k]
      strMis == \E k \in 1..NF(s) : F(k).t \in {"str", "wstr"} /\ F(k).doc[1] = "int"
      strNull == \E k \in 1..NF(s) : F(k).t \in {"str", "wstr"} /\ F(k).doc[1] = "null"
      allAbsent == \A k \in 1..NF(s) : F(k).doc[1] = "absent"
      structured == \E k \in 1..NF(s) : F(k).t \in {"vecint", "vecstr", "mapint", "obj"}          \* CSV holds flat records only
      \* XML has no null: nullptr is written as an empty element, which is an (empty) VALUE - for a container or object
      \* target that is a value of the wrong kind, so under ThrowError the document does not express "null"
      xmlNoNull == s.pol = "throw" /\ \E k \in 1..NF(s) : F(k).t \in {"vecint", "vecstr", "mapint", "obj"} /\ F(k).doc[1] = "null"
      failPerElem == Cardinality({k \in 1..NF(s) : FailMsgs(F(k)) # <<>>})
      xmlAmbiguous == IsArrayPlace(s.place) /\ s.nel > 1 /\ s.cap > 0 /\ failPerElem > 0 /\ failPerElem < s.cap
  IN IF s.place = "attr" THEN {"xml"} ELSE
     {"json", "msgpack"}
     \cup (IF ~strMis /\ ~xmlAmbiguous /\ ~xmlNoNull /\ ~(allAbsent /\ s.place # "flat") THEN {"xml"} ELSE {})
     \cup (IF s.place = "rootarr" /\ ~strMis /\ ~strNull /\ ~allAbsent /\ ~structured THEN {"csv"} ELSE {})
=============================================================================
