------------------------------ MODULE LoadScript ------------------------------
(***************************************************************************)
(* A-level semantics of loading: what a program observes when it runs a     *)
(* request script (named fields in any order, absent keys, nested scopes,   *)
(* VisitKeys, typed targets, policies) against a document.  The document is *)
(* an abstract value (the ADT of MsgPackFormat); the result is the list of  *)
(* observable events plus the exception that ends the load, exactly in the  *)
(* vocabulary the conformance harness logs (harness/vh_script.h).           *)
(*                                                                          *)
(* Leaf outcomes: <<"val", v>>  <<"skip">> (not loaded, target unchanged)   *)
(*                <<"err", code>> (SerializationException with that code)   *)
(***************************************************************************)
EXTENDS MsgPackFormat, FiniteSets, XmlFormat

IntTypes == {"i8", "u8", "i16", "u16", "i32", "u32", "i64", "u64"}
TypeBytes(T) == IF T \in {"i8", "u8"} THEN 1 ELSE IF T \in {"i16", "u16"} THEN 2 ELSE IF T \in {"i32", "u32"} THEN 4 ELSE 8
IsSignedT(T) == T \in {"i8", "i16", "i32", "i64"}

IntFits(neg, mag, T) ==
  IF IsSignedT(T) THEN (IF neg THEN NegFits(mag, TypeBytes(T)) ELSE PosFitsSigned(mag, TypeBytes(T)))
  ELSE ~neg /\ SigBytes(mag) <= TypeBytes(T)

\* the recognisable value every target holds before the load (harness: vh::Prior<T>())
Prior(T) ==
  IF T \in IntTypes THEN IntSmall(77)
  ELSE IF T = "bool" THEN <<"bool", TRUE>>
  ELSE IF T = "f32" THEN <<"f32", <<64, 240, 0, 0>>>>
  ELSE IF T = "f64" THEN <<"f64", <<64, 30, 0, 0, 0, 0, 0, 0>>>>
  ELSE IF T = "str" THEN <<"str", <<112, 114, 105, 111, 114>>>>
  ELSE IF T = "null" THEN <<"nil">>
  ELSE IF T = "enum_color" THEN <<"str", <<82, 101, 100>>>>          \* the first enumerator ("Red"): a value-initialised enum
  ELSE IF T = "tuple_i32_str_f64" THEN <<"arr", <<IntSmall(0), <<"str", <<>>>>, <<"f64", <<0, 0, 0, 0, 0, 0, 0, 0>>>>>>>>      \* default constructed
  ELSE IF T \in {"tp_ns", "tp_ms", "dur_ns"} THEN <<"ts", FALSE, Zeros(8), 0>>
  ELSE IF T \in {"tp_s", "dur_s"} THEN <<"dur", 1, IntSmall(0)>>
  ELSE IF T = "vec_u8" THEN <<"bin", <<>>>>
  ELSE IF T \in {"vec_i32", "vec_str", "vec_vec_i32", "vec_vec_u8"} THEN <<"arr", <<>>>>
  ELSE IF T \in {"map_str_i32", "map_i32_str", "map_tp_i32"} THEN <<"map", <<>>>>
  ELSE <<"none">>

\* value a freshly created container element holds before it is loaded (value-initialised)
Fresh(T) ==
  IF T \in IntTypes THEN IntSmall(0)
  ELSE IF T = "str" THEN <<"str", <<>>>>
  ELSE IF T = "vec_i32" THEN <<"arr", <<>>>>
  ELSE IF T = "vec_u8" THEN <<"bin", <<>>>>
  ELSE IF T = "f64" THEN <<"f64", <<0, 0, 0, 0, 0, 0, 0, 0>>>>
  ELSE IF T = "f32" THEN <<"f32", <<0, 0, 0, 0>>>>
  ELSE IF T = "bool" THEN <<"bool", FALSE>>
  ELSE Prior(T)

ByPolicy(p, code) == IF p = "throw" THEN <<"err", code>> ELSE <<"skip">>
Mismatch(pol) == ByPolicy(pol.mm, "Mismatched types")
Overflow(pol) == ByPolicy(pol.ov, "Overflow")

-----------------------------------------------------------------------------
(* IEEE-754 conversions on byte sequences (all arithmetic below 2^31)        *)

F64Exp(b)  == (b[1] % 128) * 16 + (b[2] \div 16)                       \* 11 bits
F64Neg(b)  == b[1] >= 128
F64ManHi(b) == ((b[2] % 16) * 256 + b[3]) * 256 + b[4]                 \* top 20 bits of the 52-bit mantissa
F64ManTop23(b) == F64ManHi(b) * 8 + (b[5] \div 32)                     \* top 23 bits
F64ManLow29(b) == (((b[5] % 32) * 256 + b[6]) * 256 + b[7]) * 256 + b[8]   \* discarded 29 bits
F64ManZero(b) == F64ManHi(b) = 0 /\ b[5] = 0 /\ b[6] = 0 /\ b[7] = 0 /\ b[8] = 0

F32FromParts(neg, e8, m23) ==
  <<(IF neg THEN 128 ELSE 0) + (e8 \div 2), (e8 % 2) * 128 + (m23 \div 65536), (m23 \div 256) % 256, m23 % 256>>

\* double -> float.  Result <<"val", f32>> | <<"overflow">> | <<"any">> (result subnormal: not specified here)
\*                  | <<"nonfinite", f32>>
NarrowF64(b) ==
  LET e == F64Exp(b) IN
  IF e = 2047 THEN
       <<"nonfinite", F32FromParts(F64Neg(b), 255, IF F64ManZero(b) THEN 0 ELSE 4194304 + (F64ManTop23(b) % 4194304))>>
  ELSE IF e = 0 THEN (IF F64ManZero(b) THEN <<"val", F32FromParts(F64Neg(b), 0, 0)>> ELSE <<"any">>)
  ELSE LET ue == e - 1023
           m == F64ManTop23(b)
           low == F64ManLow29(b)
           up == low > 268435456 \/ (low = 268435456 /\ (m % 2) = 1)      \* round to nearest, ties to even
           m1 == IF up THEN m + 1 ELSE m
           e1 == IF m1 = 8388608 THEN ue + 1 ELSE ue
           m2 == IF m1 = 8388608 THEN 0 ELSE m1
       IN IF ue > 127 THEN <<"overflow">>
          ELSE IF ue < -126 THEN <<"any">>
          ELSE IF ue = 127 /\ (m > 8388607 \/ (m = 8388607 /\ low > 0)) THEN <<"overflow">>   \* > FLT_MAX
          ELSE IF e1 > 127 THEN <<"overflow">>
          ELSE <<"val", F32FromParts(F64Neg(b), e1 + 127, m2)>>

F32Exp(b) == (b[1] % 128) * 2 + (b[2] \div 128)
F32Man(b) == ((b[2] % 128) * 256 + b[3]) * 256 + b[4]
F64FromParts(neg, e11, m23) ==   \* mantissa = m23 << 29
  <<(IF neg THEN 128 ELSE 0) + (e11 \div 16), (e11 % 16) * 16 + (m23 \div 524288), (m23 \div 2048) % 256,
    (m23 \div 8) % 256, (m23 % 8) * 32, 0, 0, 0>>
RECURSIVE NormSub(_, _)
NormSub(m, e) == IF m >= 8388608 THEN <<m - 8388608, e>> ELSE NormSub(m * 2, e - 1)
WidenF32(b) ==
  LET e == F32Exp(b) m == F32Man(b) neg == b[1] >= 128 IN
  IF e = 255 THEN F64FromParts(neg, 2047, IF m = 0 THEN 0 ELSE 4194304 + (m % 4194304))
  ELSE IF e = 0 THEN (IF m = 0 THEN F64FromParts(neg, 0, 0)
                      ELSE LET n == NormSub(m, -126) IN F64FromParts(neg, n[2] + 1023, n[1]))
  ELSE F64FromParts(neg, e - 127 + 1023, m)

\* integer -> floating point, exact for |n| < 2^24 (enough for the corpus); larger magnitudes are left unspecified here
RECURSIVE Log2Floor(_, _)
Log2Floor(n, e) == IF n < 2 THEN e ELSE Log2Floor(n \div 2, e + 1)
IntToFloat(v, T) ==
  IF SigBytes(v[3]) > 3 THEN <<"any">>
  ELSE LET n == BEval(Low(v[3], 4)) IN
       IF n = 0 THEN (IF T = "f64" THEN <<"f64", Zeros(8)>> ELSE <<"f32", Zeros(4)>>)
       ELSE LET e == Log2Floor(n, 0)
                m23 == (n - 2 ^ e) * (2 ^ (23 - e))
            IN IF T = "f64" THEN <<"f64", F64FromParts(v[2], e + 1023, m23)>> ELSE <<"f32", F32FromParts(v[2], e + 127, m23)>>

-----------------------------------------------------------------------------
(* Timestamps into chrono targets                                            *)
\* seconds range of a 64-bit nanosecond count: |count| <= 2^63-1  =>  seconds in [-9223372037, 9223372036]
\* 9223372036 = 0x2_25C1_7D04 : bytes 00 00 00 02 25 C1 7D 04
NsLimit == <<0, 0, 0, 2, 37, 193, 125, 4>>

TsToNs(v) ==    \* <<"ts", neg, mag, nsec>> -> target time_point<ns>: representable iff seconds*1e9+nsec fits int64
  LET neg == v[2] m == v[3] ns == v[4]
      c == CmpMag(m, NsLimit)
  IN IF ns < 0 \/ ns > 999999999 THEN <<"any">>
     ELSE IF ~neg THEN (IF c < 0 \/ (c = 0 /\ ns <= 854775807) THEN <<"val", v>> ELSE <<"overflow">>)
     ELSE \* seconds = -m, total = -m*1e9 + ns >= -2^63  <=>  m*1e9 - ns <= 2^63
          LET c2 == CmpMag(m, <<0, 0, 0, 2, 37, 193, 125, 5>>) IN   \* m <= 9223372037
          IF c2 < 0 \/ (c2 = 0 /\ ns >= 145224192) THEN <<"val", v>> ELSE <<"overflow">>

-----------------------------------------------------------------------------
(* Typed load of one value into a target of type T (MessagePack data model)  *)

RECURSIVE LoadLeaf(_, _, _), LoadElems(_, _, _, _, _), LoadMapPairs(_, _, _, _, _, _), LoadTuple(_, _, _, _)

\* order of std::map keys: strings by bytes, integers by value
KeyLess(a, b) ==
  IF a[1] = "str" THEN
       LET RECURSIVE Lt(_)
           Lt(i) == IF i > Len(b[2]) THEN FALSE ELSE IF i > Len(a[2]) THEN TRUE ELSE IF a[2][i] < b[2][i] THEN TRUE ELSE IF a[2][i] > b[2][i] THEN FALSE ELSE Lt(i + 1)
       IN Lt(1)
  ELSE IF a[2] /\ ~b[2] THEN TRUE ELSE IF ~a[2] /\ b[2] THEN FALSE
  ELSE IF a[2] THEN CmpMag(a[3], b[3]) > 0 ELSE CmpMag(a[3], b[3]) < 0
RECURSIVE InsertPair(_, _, _), SortFrom(_, _, _)
InsertPair(sorted, p, i) == IF i > Len(sorted) THEN Append(sorted, p)
                            ELSE IF KeyLess(p[1], sorted[i][1]) THEN SubSeq(sorted, 1, i - 1) \o <<p>> \o SubSeq(sorted, i, Len(sorted))
                            ELSE InsertPair(sorted, p, i + 1)
SortFrom(ps, i, acc) == IF i > Len(ps) THEN acc ELSE SortFrom(ps, i + 1, InsertPair(acc, ps[i], 1))
SortPairs(ps) == SortFrom(ps, 1, <<>>)

\* entries of a map into std::map<K, V>: the key must convert to K, the value loads as a leaf
LoadMapPairs(pairs, KT, VT, pol, i, acc) ==
  IF i > Len(pairs) THEN <<"val", acc>>
  ELSE LET key == pairs[i][1]
           keyOk == (KT = "str" /\ key[1] = "str") \/ (KT = "i32" /\ key[1] = "int" /\ IntFits(key[2], key[3], "i32"))
                    \/ (KT = "tp_ns" /\ key[1] = "ts" /\ TsToNs(key)[1] = "val") IN
       \* an integer key the key type cannot represent follows the overflow policy: error, or the entry is skipped (key and value)
       IF KT = "i32" /\ key[1] = "int" /\ ~keyOk THEN (IF pol.ov = "throw" THEN Overflow(pol) ELSE LoadMapPairs(pairs, KT, VT, pol, i + 1, acc))
       ELSE IF ~keyOk THEN <<"any">>
       ELSE LET r == LoadLeaf(pairs[i][2], VT, pol) IN
            IF r[1] = "err" \/ r[1] = "any" THEN r
            ELSE LoadMapPairs(pairs, KT, VT, pol, i + 1, Append(acc, <<key, IF r[1] = "val" THEN r[2] ELSE Fresh(VT)>>))

\* elements of an array into a sequence container of element type E (fresh target):
\* a skipped element keeps its (value-initialised) content and its position
LoadElems(items, E, pol, i, acc) ==
  IF i > Len(items) THEN <<"val", acc>>
  ELSE LET r == LoadLeaf(items[i], E, pol) IN
       IF r[1] = "err" THEN r
       ELSE IF r[1] = "any" THEN r
       ELSE LoadElems(items, E, pol, i + 1, Append(acc, IF r[1] = "val" THEN r[2] ELSE Fresh(E)))

\* components of std::tuple<int32_t, std::string, double>: a skipped component keeps its (value-initialised) content, the following
\* components are still loaded
TupleTypes == <<"i32", "str", "f64">>
LoadTuple(items, pol, i, acc) ==
  IF i > 3 THEN <<"val", <<"arr", acc>>>>
  ELSE LET r == LoadLeaf(items[i], TupleTypes[i], pol) IN
       IF r[1] = "err" THEN r
       ELSE IF r[1] \notin {"val", "skip"} THEN <<"any">>
       ELSE LoadTuple(items, pol, i + 1, Append(acc, IF r[1] = "val" THEN r[2] ELSE Fresh(TupleTypes[i])))

\* XML archive: every scalar is text.  Only the well-defined part is prescribed; the rest is left open ("any"):
\* null vs empty (the archive cannot tell them apart), containers given where a scalar is expected, numeric-looking strings.
XmlIntegralFloat(v) ==      \* table floats whose text form has no fraction: they read back as integers
  IF v[2] \in {<<0, 0, 0, 0, 0, 0, 0, 0>>, <<0, 0, 0, 0>>} THEN IntSmall(0)
  ELSE IF v[2] \in {<<64, 144, 0, 0, 0, 0, 0, 0>>, <<68, 128, 0, 0>>} THEN IntSmall(1024) ELSE <<"none">>
XmlFloatOf(v, T) ==         \* the table float denoted by the text of v, in the width of the target
  LET i == CHOOSE n \in 1..Len(XmlFloatTable) : XmlFloatTable[n].text = XmlText(v) IN
  IF T = "f64" THEN <<"f64", XmlFloatTable[i].f64>> ELSE <<"f32", XmlFloatTable[i].f32>>
LoadLeafXml(v, T, pol) ==
  LET k == v[1] IN
  IF k \in {"arr", "map"} THEN
       (IF T \in {"vec_i32", "vec_str"} /\ k = "arr" /\ Len(v[2]) > 0
        THEN LET r == LoadElems(v[2], IF T = "vec_i32" THEN "i32" ELSE "str", pol, 1, <<>>) IN IF r[1] = "val" THEN <<"val", <<"arr", r[2]>>>> ELSE r
        ELSE <<"any">>)
  ELSE IF T \notin (IntTypes \cup {"bool", "f32", "f64", "str"}) THEN <<"any">>
  ELSE IF k = "nil" THEN <<"skip">>
  ELSE IF k = "str" /\ v[2] = <<>> THEN <<"any">>                          \* empty string: indistinguishable from null
  ELSE IF T = "str" THEN <<"val", <<"str", EncodeCps(XmlText(v), "utf8", 1)>>>>
  ELSE IF T \in IntTypes THEN
       IF k = "int" THEN (IF IntFits(v[2], v[3], T) THEN <<"val", v>>
                          \* named deviation Dev_NegativeTextToUnsignedIsMismatch: "-1" for an unsigned target is reported as "not a number"
                          ELSE IF pol.dev = "negtext" /\ v[2] /\ ~IsSignedT(T) THEN Mismatch(pol)
                          ELSE Overflow(pol))
       ELSE IF k \in {"f64", "f32"} THEN
            (LET n == XmlIntegralFloat(v) IN IF n = <<"none">> THEN Mismatch(pol) ELSE IF IntFits(n[2], n[3], T) THEN <<"val", n>> ELSE Overflow(pol))
       ELSE Mismatch(pol)                                                    \* "true", non-numeric text
  ELSE IF T = "bool" THEN
       IF k = "bool" THEN <<"val", v>>
       ELSE IF k = "int" /\ ~v[2] /\ SigBytes(v[3]) <= 1 /\ v[3][8] <= 1 THEN <<"val", <<"bool", v[3][8] = 1>>>>
       ELSE IF k = "int" /\ ~v[2] THEN Overflow(pol)                      \* "2", "10", "300": a number the target cannot represent
       ELSE <<"any">>
  ELSE \* f32 / f64
       IF k \in {"f64", "f32"} THEN <<"val", XmlFloatOf(v, T)>>
       ELSE IF k = "int" THEN (LET f == IntToFloat(v, T) IN IF f[1] = "any" THEN <<"any">> ELSE <<"val", f>>)
       ELSE IF k = "bool" THEN Mismatch(pol)
       ELSE Mismatch(pol)

\* named deviation Dev_JsonBigIntegerIsDouble: an integer literal below -2^63 is read as a floating point number by the JSON parser
JsonBigNeg(v) == v[1] = "int" /\ v[2] /\ CmpMag(v[3], <<128, 0, 0, 0, 0, 0, 0, 0>>) > 0

\* Further std types of the model are serialized like one of the base target types (optional / smart pointer / atomic like their
\* value, enum as its registered name, wide string as the text, set / array / deque / list as a sequence); std::pair is an object
\* with the members "key" and "value", std::tuple an array of its components.
TypeAlias(T) ==
  IF T \in {"opt_i32", "uptr_i32", "atomic_i32"} THEN "i32"
  ELSE IF T \in {"sptr_str", "wstr", "enum_color"} THEN "str"
  ELSE IF T \in {"set_i32", "arr3_i32", "deque_i32"} THEN "vec_i32"
  ELSE IF T = "list_str" THEN "vec_str"
  ELSE T
EnumColorNames == { <<82, 101, 100>>, <<71, 114, 101, 101, 110>>, <<66, 108, 117, 101>> }      \* "Red" "Green" "Blue"
ShapeOfPair(v) == v[1] = "map" /\ Len(v[2]) = 2 /\ v[2][1][1] = <<"str", <<107, 101, 121>>>> /\ v[2][2][1] = <<"str", <<118, 97, 108, 117, 101>>>>
                  /\ v[2][1][2][1] = "str" /\ v[2][2][2][1] = "int"
ShapeOfTuple(v) == v[1] = "arr" /\ Len(v[2]) = 3 /\ v[2][1][1] = "int" /\ v[2][2][1] = "str" /\ v[2][3][1] = "f64"

LoadLeaf(v, T0, pol) ==
  LET k == v[1]
      T == TypeAlias(T0) IN
  IF T0 = "pair_str_i32" THEN (IF ShapeOfPair(v) /\ IntFits(v[2][2][2][2], v[2][2][2][3], "i32") THEN <<"val", v>> ELSE <<"any">>)
  ELSE IF T0 = "tuple_i32_str_f64" THEN        \* std::tuple<int32_t, std::string, double>: an array whose elements load into the components
       (IF k = "nil" THEN <<"any">> ELSE IF k # "arr" THEN Mismatch(pol) ELSE IF Len(v[2]) # 3 THEN <<"any">> ELSE LoadTuple(v[2], pol, 1, <<>>))
  ELSE IF T0 = "enum_color" /\ k = "str" /\ v[2] \notin EnumColorNames THEN Mismatch(pol)       \* a string that is not a registered name
  ELSE IF T0 = "enum_color" /\ k # "str" THEN <<"any">>
  ELSE IF T0 # T /\ k = "nil" THEN <<"any">>                    \* null into optional / smart pointer: resets the target (left open here)
  ELSE IF T0 = "arr3_i32" /\ ~(k = "arr" /\ Len(v[2]) = 3) THEN <<"any">>
  ELSE IF pol.arch = "xml" THEN LoadLeafXml(v, T, pol)
  ELSE IF pol.arch = "json" /\ pol.dev = "jsonbig" /\ JsonBigNeg(v) /\ T \in (IntTypes \cup {"bool", "f32", "f64"}) THEN
       (IF T \in {"f32", "f64"} THEN <<"any">> ELSE Mismatch(pol))
  ELSE IF T = "null" THEN (IF k = "nil" THEN <<"val", <<"nil">>>> ELSE Mismatch(pol))
  ELSE IF k = "nil" THEN                                    \* null is "not loaded" for every other target ...
       (IF pol.arch \notin {"msgpack", "json"} /\ pol.mm = "throw" /\ T \notin (IntTypes \cup {"bool", "f32", "f64"})
        THEN <<"any">>          \* ... XML + ThrowError + non-fundamental target: left open (XML cannot tell null from empty)
        ELSE <<"skip">>)
  ELSE IF T \in IntTypes THEN
       IF k = "int" THEN (IF IntFits(v[2], v[3], T) THEN <<"val", v>> ELSE Overflow(pol))
       ELSE IF k = "bool" THEN <<"val", IntSmall(IF v[2] THEN 1 ELSE 0)>>
       ELSE Mismatch(pol)
  ELSE IF T = "bool" THEN
       IF k = "bool" THEN <<"val", v>>
       ELSE IF k = "int" THEN (IF ~v[2] /\ SigBytes(v[3]) <= 1 /\ v[3][8] <= 1 THEN <<"val", <<"bool", v[3][8] = 1>>>> ELSE Overflow(pol))
       ELSE Mismatch(pol)
  ELSE IF T \in {"f32", "f64"} /\ k = "int" /\ pol.arch # "msgpack" THEN
       \* text archives: a number without fraction is still a number (JSON has one numeric kind)
       LET f == IntToFloat(v, T) IN IF f[1] = "any" THEN <<"any">> ELSE <<"val", f>>
  ELSE IF T = "f64" THEN
       IF k = "f64" THEN <<"val", v>> ELSE IF k = "f32" THEN <<"val", <<"f64", WidenF32(v[2])>>>> ELSE Mismatch(pol)
  ELSE IF T = "f32" THEN
       IF k = "f32" THEN <<"val", v>>
       ELSE IF k = "f64" THEN
            LET n == NarrowF64(v[2]) IN
            IF n[1] = "val" THEN <<"val", <<"f32", n[2]>>>>
            ELSE IF n[1] = "overflow" THEN Overflow(pol)
            ELSE IF n[1] = "nonfinite" THEN <<"nonfinite", <<"f32", n[2]>>>>
            ELSE <<"any">>
       ELSE Mismatch(pol)
  ELSE IF T = "str" THEN (IF k = "str" THEN <<"val", v>> ELSE Mismatch(pol))
  ELSE IF T \in {"tp_ns", "dur_ns"} THEN
       IF k = "ts" THEN (LET r == TsToNs(v) IN IF r[1] = "overflow" THEN Overflow(pol) ELSE r)
       ELSE IF k = "ext" /\ v[2] = 255 THEN <<"err", "Parsing error">>     \* timestamp extension of an undefined size
       ELSE Mismatch(pol)
  ELSE IF T = "vec_i32" THEN
       IF k = "arr" THEN (LET r == LoadElems(v[2], "i32", pol, 1, <<>>) IN IF r[1] = "val" THEN <<"val", <<"arr", r[2]>>>> ELSE r)
       ELSE Mismatch(pol)
  ELSE IF T = "vec_str" THEN
       IF k = "arr" THEN (LET r == LoadElems(v[2], "str", pol, 1, <<>>) IN IF r[1] = "val" THEN <<"val", <<"arr", r[2]>>>> ELSE r)
       ELSE Mismatch(pol)
  ELSE IF T = "vec_vec_i32" THEN
       IF k = "arr" THEN (LET r == LoadElems(v[2], "vec_i32", pol, 1, <<>>) IN IF r[1] = "val" THEN <<"val", <<"arr", r[2]>>>> ELSE r)
       ELSE Mismatch(pol)
  ELSE IF T = "vec_vec_u8" THEN
       IF k = "arr" THEN (LET r == LoadElems(v[2], "vec_u8", pol, 1, <<>>) IN IF r[1] = "val" THEN <<"val", <<"arr", r[2]>>>> ELSE r)
       ELSE Mismatch(pol)
  ELSE IF T \in {"map_str_i32", "map_i32_str", "map_tp_i32"} THEN      \* std::map: entries come back ordered by key
       IF k = "map" /\ T = "map_tp_i32" /\ Len(v[2]) > 1 THEN <<"any">>          \* (ordering of time point keys is not modelled: single entry maps)
       ELSE IF k = "map" THEN
            LET KT == IF T = "map_str_i32" THEN "str" ELSE IF T = "map_tp_i32" THEN "tp_ns" ELSE "i32"
                VT == IF T = "map_i32_str" THEN "str" ELSE "i32"
                r == LoadMapPairs(v[2], KT, VT, pol, 1, <<>>) IN
            IF r[1] = "val" THEN <<"val", <<"map", SortPairs(r[2])>>>> ELSE r
       ELSE Mismatch(pol)
  ELSE IF T = "vec_u8" THEN           \* byte container: bin, or (compatible rendering) an array of small integers
       IF k = "bin" THEN <<"val", v>>
       ELSE IF k = "arr" THEN
            LET r == LoadElems(v[2], "u8", pol, 1, <<>>) IN
            IF r[1] = "val" THEN <<"val", <<"bin", [i \in 1..Len(r[2]) |-> r[2][i][3][8]]>>>> ELSE r
       ELSE Mismatch(pol)
  ELSE <<"any">>

-----------------------------------------------------------------------------
(* Key lookup: keys of a scenario are <<"ks", bytes>>, <<"ki", n>> or <<"ku", n>> *)
KeyMatches(docKey, key) ==
  IF key[1] = "attr" THEN docKey = key
  ELSE IF key[1] = "ks" THEN docKey[1] = "str" /\ docKey[2] = key[2]
  ELSE docKey[1] = "int" /\ docKey = IntSmall(key[2])

RECURSIVE FindKey(_, _, _)
FindKey(pairs, key, i) == IF i > Len(pairs) THEN 0 ELSE IF KeyMatches(pairs[i][1], key) THEN i ELSE FindKey(pairs, key, i + 1)

OpKey(op) == IF op.op = "attr" THEN <<"attr", op.ks>> ELSE IF "ks" \in DOMAIN op THEN <<"ks", op.ks>> ELSE IF "ki" \in DOMAIN op THEN <<"ki", op.ki>> ELSE <<"ku", op.ku>>

-----------------------------------------------------------------------------
(* Script execution.  State threaded through: [ev, exc]  (exc = <<"none">> while running) *)

Running(st) == st.exc = <<"none">>
Emit(st, e) == [st EXCEPT !.ev = Append(@, e)]
Throw(st, code) == [st EXCEPT !.exc = <<"ser", code>>]
LeafAny(st) == [st EXCEPT !.exc = <<"unspecified">>]       \* outcome outside what this spec prescribes

LeafEvent(tag, r, T) ==
  IF r[1] = "val" THEN <<tag, TRUE, r[2]>> ELSE <<tag, FALSE, Prior(T)>>

RECURSIVE ExecObjOps(_, _, _, _, _), ExecArrOps(_, _, _, _, _, _)

\* scope entry shared by obj/arr ops: v = the value under the key (or <<"absent">>)
OpenKind(v, want, pol) ==      \* "enter" | "skip" | <<"err", code>> | <<"any">>
  IF pol.arch = "xml" THEN        \* a scope is an element with at least one child element; null / empty containers are left open
       (IF v[1] = "absent" THEN <<"skip">>
        ELSE IF v[1] \in {"arr", "map"} THEN (IF v[1] = want /\ Len(v[2]) > 0 THEN <<"enter">> ELSE <<"any">>)
        ELSE IF v[1] = "nil" \/ (v[1] = "str" /\ v[2] = <<>>) THEN (IF pol.mm = "skip" THEN <<"skip">> ELSE <<"any">>)   \* an element without children is never entered
        ELSE Mismatch(pol))
  ELSE IF v[1] = "nil" /\ pol.arch \notin {"msgpack", "json"} /\ pol.mm = "throw" THEN <<"any">>
  ELSE IF v[1] = "absent" \/ v[1] = "nil" THEN <<"skip">>
  ELSE IF v[1] = want THEN <<"enter">>
  ELSE Mismatch(pol)

ExecObjOps(pairs, ops, i, pol, st) ==
  IF i > Len(ops) \/ ~Running(st) THEN st
  ELSE LET op == ops[i] IN
    IF op.op = "visit" THEN
         LET ks == SelectSeq([j \in 1..Len(pairs) |-> pairs[j][1]], LAMBDA k : k[1] # "attr") IN      \* attributes are not enumerated
         ExecObjOps(pairs, ops, i + 1, pol, Emit(st, <<"visit", ks>>))
    ELSE IF op.op = "base" THEN          \* members of a base class are requested from the same object
         ExecObjOps(pairs, ops, i + 1, pol, ExecObjOps(pairs, op.ops, 1, pol, st))
    ELSE LET idx == FindKey(pairs, OpKey(op), 1)
             v == IF idx = 0 THEN <<"absent">> ELSE pairs[idx][2] IN
      IF op.op = "attr" THEN        \* XML attribute: text, always present or absent (no null), bool via the parser's own truth test
           IF idx = 0 THEN ExecObjOps(pairs, ops, i + 1, pol, Emit(st, <<"attr", FALSE, Prior(op.t)>>))
           ELSE LET r == IF op.t = "bool" /\ v[1] # "bool" THEN <<"any">> ELSE IF v[1] = "str" /\ v[2] = <<>> /\ op.t # "str" THEN <<"any">>
                         ELSE IF v[1] = "str" /\ v[2] = <<>> THEN <<"val", v>> ELSE LoadLeaf(v, op.t, pol) IN
                IF r[1] = "err" THEN Throw(st, r[2])
                ELSE IF r[1] \in {"any", "nonfinite"} THEN LeafAny(st)
                ELSE ExecObjOps(pairs, ops, i + 1, pol, Emit(st, LeafEvent("attr", r, op.t)))
      ELSE IF op.op = "req" THEN
           IF idx = 0 THEN ExecObjOps(pairs, ops, i + 1, pol, Emit(st, <<"req", FALSE, Prior(op.t)>>))
           ELSE LET r == LoadLeaf(v, op.t, pol) IN
                IF r[1] = "err" THEN Throw(st, r[2])
                ELSE IF r[1] \in {"any", "nonfinite"} THEN LeafAny(st)
                ELSE ExecObjOps(pairs, ops, i + 1, pol, Emit(st, LeafEvent("req", r, op.t)))
      ELSE \* "obj" | "arr"
           LET want == IF op.op = "obj" THEN "map" ELSE "arr"
               ok == OpenKind(v, want, pol)
               st1 == Emit(st, <<"open">>) IN
           IF ok[1] = "err" THEN Throw(st1, ok[2])
           ELSE IF ok[1] = "any" THEN LeafAny(st1)
           ELSE IF ok[1] = "skip" THEN ExecObjOps(pairs, ops, i + 1, pol, Emit(st1, <<"close", FALSE>>))
           ELSE LET st2 == IF op.op = "obj" THEN ExecObjOps(v[2], op.ops, 1, pol, st1)
                           ELSE ExecArrOps(v[2], op.ops, 1, 1, pol, st1) IN
                IF ~Running(st2) THEN st2
                ELSE ExecObjOps(pairs, ops, i + 1, pol, Emit(st2, <<"close", TRUE>>))

\* pos = index of the next unread element
ExecArrOps(items, ops, i, pos, pol, st) ==
  IF i > Len(ops) \/ ~Running(st) THEN st
  ELSE LET op == ops[i] IN
    IF op.op = "isend" THEN ExecArrOps(items, ops, i + 1, pos, pol, Emit(st, <<"isend", pos > Len(items)>>))
    ELSE IF op.op = "size" THEN ExecArrOps(items, ops, i + 1, pos, pol, Emit(st, <<"size", Len(items)>>))
    ELSE IF pos > Len(items) THEN Throw(IF op.op = "elem" THEN st ELSE Emit(st, <<"open">>), "Out of range")
    ELSE LET v == items[pos] IN
      IF op.op = "elem" THEN
           LET r == LoadLeaf(v, op.t, pol) IN
           IF r[1] = "err" THEN Throw(st, r[2])
           ELSE IF r[1] \in {"any", "nonfinite"} THEN LeafAny(st)
           ELSE ExecArrOps(items, ops, i + 1, pos + 1, pol, Emit(st, LeafEvent("elem", r, op.t)))
      ELSE LET want == IF op.op = "obj" THEN "map" ELSE "arr"
               ok == OpenKind(v, want, pol)
               st1 == Emit(st, <<"open">>) IN
           IF ok[1] = "err" THEN Throw(st1, ok[2])
           ELSE IF ok[1] = "any" THEN LeafAny(st1)
           ELSE IF ok[1] = "skip" THEN ExecArrOps(items, ops, i + 1, pos + 1, pol, Emit(st1, <<"close", FALSE>>))
           ELSE LET st2 == IF op.op = "obj" THEN ExecObjOps(v[2], op.ops, 1, pol, st1)
                           ELSE ExecArrOps(v[2], op.ops, 1, 1, pol, st1) IN
                IF ~Running(st2) THEN st2
                ELSE ExecArrOps(items, ops, i + 1, pos + 1, pol, Emit(st2, <<"close", TRUE>>))

St0 == [ev |-> <<>>, exc |-> <<"none">>]

\* root = [k |-> "obj"|"arr"|"leaf", ops / t]
Exec(doc, root, pol) ==
  IF root.k = "leaf" THEN
       LET r == LoadLeaf(doc, root.t, pol) IN
       IF r[1] = "err" THEN [ev |-> <<>>, exc |-> <<"ser", r[2]>>]     \* the state of a partly loaded target is not specified
       ELSE IF r[1] \in {"any", "nonfinite"} THEN LeafAny(St0)
       ELSE [ev |-> <<<<"root", IF r[1] = "val" THEN r[2] ELSE Prior(root.t)>>>>, exc |-> <<"none">>]
  ELSE LET want == IF root.k = "obj" THEN "map" ELSE "arr"
           ok == OpenKind(doc, want, pol) IN
       IF ok[1] = "err" THEN Throw(St0, ok[2])
       ELSE IF ok[1] = "any" THEN LeafAny(St0)
       ELSE IF ok[1] = "skip" THEN St0
       ELSE IF root.k = "obj" THEN ExecObjOps(doc[2], root.ops, 1, pol, St0)
       ELSE ExecArrOps(doc[2], root.ops, 1, 1, pol, St0)

IsPrefixOf(a, b) == Len(a) <= Len(b) /\ SubSeq(b, 1, Len(a)) = a
=============================================================================
