SPECIFICATION Spec
INVARIANT RoundTrip
