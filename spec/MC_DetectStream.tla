--------------------------- MODULE MC_DetectStream ---------------------------
(* DetectEncoding(std::istream&, skipBomWhenFound) with the stream position as a state variable.            *)
(* A text (BOM + encoding, every truncation point) follows a preamble of p bytes that the caller has         *)
(* already consumed.  One action, Detect.  Invariants: the position afterwards is origPos (+ BOM size iff a   *)
(* BOM was found and skipping was requested) - so that the text read from there is the text written -, and    *)
(* the detected scheme is the written one wherever the property demands detection.                           *)
EXTENDS EncodedStream

CONSTANTS Cps, MaxText, Preambles, PreByte,
          FixDetect, SeekFromOrig,    \* variant of the code (TRUE/TRUE = the tree with the recorded fixes)
          TolerateNul

VARIABLES scn, pos, utf, phase
vars == <<scn, pos, utf, phase>>

Texts == UNION {[1..n -> Cps] : n \in 0..MaxText}
Stream(s) == [k \in 1..s.p |-> PreByte] \o SubSeq(WriterBytes(s.e, s.bom, s.text), 1, s.keep)
TextBytes(s) == SubSeq(WriterBytes(s.e, s.bom, s.text), 1, s.keep)

Init ==
  /\ \E e \in Schemes, bom \in BOOLEAN, text \in Texts, p \in Preambles, skip \in BOOLEAN :
       \E keep \in 0..Len(WriterBytes(e, bom, text)) :
          scn = [e |-> e, bom |-> bom, text |-> text, keep |-> keep, p |-> p, skip |-> skip]
  /\ pos = scn.p /\ utf = "unset" /\ phase = "before"

Detect ==
  /\ phase = "before"
  /\ LET r == MDetectStream(Stream(scn), scn.p, scn.skip, [tail |-> TRUE, detect |-> FixDetect], SeekFromOrig) IN
     pos' = r.pos /\ utf' = r.utf
  /\ phase' = "after" /\ UNCHANGED scn

Next == Detect
Spec == Init /\ [][Next]_vars

BomFound == StartsWith(TextBytes(scn), Bom(utf))
PositionCorrect == phase = "after" => DetectPosOK(scn.p, scn.skip, BomFound, Len(Bom(utf)), pos)
\* the rest of the stream from the new position is the text (without its BOM when skipped)
RestIsText ==
  phase = "after" =>
     SubSeq(Stream(scn), pos + 1, Len(Stream(scn)))
       = SubSeq(TextBytes(scn), (IF scn.skip /\ BomFound THEN Len(Bom(utf)) ELSE 0) + 1, Len(TextBytes(scn)))
FirstCp  == IF Len(scn.text) > 0 THEN scn.text[1] ELSE -1
FirstLen == IF Len(scn.text) > 0 THEN Len(EncBytesCp(scn.e, scn.text[1])) ELSE 0
HasNul == \E k \in DOMAIN scn.text : scn.text[k] = 0
DetectionCorrect ==
  (phase = "after" /\ DetectionDemanded(TextBytes(scn), scn.e, scn.bom, FirstCp, FirstLen) /\ ~(TolerateNul /\ HasNul)) => utf = scn.e
=============================================================================
