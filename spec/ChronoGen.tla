----------------------------- MODULE ChronoGen -----------------------------
(* Grammar-driven generation of ISO-8601 date-time and duration texts for C15 (and of the instants for C14's  *)
(* list leg).  One action per grammar production: every production offers its default spelling (cost 0) and  *)
(* its variants (cost 1: other valid values, values at / below / above the field range, limits of the target  *)
(* types, lenient and broken spellings); a behaviour may spend at most MaxDev units, so TLC enumerates every   *)
(* combination of up to MaxDev deviations from the base text.  Further actions: the calendar product          *)
(* (year x month x day-of-month around the month ends), the limit neighbourhoods of every (unit,              *)
(* representation) printed by the specification itself, every fraction of 1..FracLen digits plus seeded long   *)
(* fractions, and single-character mutations (delete / insert / replace) of valid texts.                       *)
(* Terminal states (stage = 0) are exported as JSON by the Export invariant (path mode).                       *)
(* The choice tables below were written as readable strings and converted to code points mechanically.        *)
EXTENDS Chrono, Json

CONSTANTS Kinds,      \* subset of {"dt", "du", "cal", "lim", "frac", "mut"}
          MaxDevDt, MaxDevDu,
          FracLen,    \* all fractions of 1..FracLen digits
          FracSample, \* number of seeded long fractions
          Seed,
          MutBases    \* how many of the mutation base texts are used

VARIABLES kind,   \* what is being built
          out,    \* "dt" | "du": which parser the finished text is meant for
          stage,  \* next production; 0 = finished
          txt, dev

vars == <<kind, out, stage, txt, dev>>

GDtYear ==   \* strict, limit, lenient and broken year fields
  {<<0, <<50, 48, 50, 52>>>>, <<1, <<50, 48, 50, 51>>>>, <<1, <<49, 57, 54, 57>>>>, <<1, <<49, 57, 55, 48>>>>,
   <<1, <<48, 48, 48, 48>>>>, <<1, <<48, 48, 48, 49>>>>, <<1, <<57, 57, 57, 57>>>>,
   <<1, <<43, 49, 48, 48, 48, 48>>>>, <<1, <<45, 48, 48, 48, 49>>>>, <<1, <<45, 48, 48, 48, 52>>>>,
   <<1, <<45, 48, 52, 48, 48>>>>, <<1, <<49, 57, 48, 48>>>>, <<1, <<50, 48, 48, 48>>>>, <<1, <<50, 49, 48, 48>>>>,
   <<1, <<49, 54, 48, 48>>>>, <<1, <<49, 53, 56, 50>>>>, <<1, <<49, 54, 55, 55>>>>, <<1, <<49, 54, 55, 56>>>>,
   <<1, <<50, 50, 54, 50>>>>, <<1, <<50, 50, 54, 51>>>>, <<1, <<49, 57, 48, 49>>>>, <<1, <<50, 48, 51, 56>>>>,
   <<1, <<43, 50, 57, 50, 50, 55, 55, 48, 50, 54, 53, 57, 54>>>>,
   <<1, <<43, 50, 57, 50, 50, 55, 55, 48, 50, 54, 53, 57, 55>>>>,
   <<1, <<45, 50, 57, 50, 50, 55, 55, 48, 50, 50, 54, 53, 55>>>>,
   <<1, <<45, 50, 57, 50, 50, 55, 55, 48, 50, 50, 54, 53, 56>>>>, <<1, <<43, 53, 56, 56, 49, 53, 56, 48>>>>,
   <<1, <<43, 53, 56, 56, 49, 53, 56, 49>>>>, <<1, <<45, 53, 56, 55, 55, 54, 52, 49>>>>,
   <<1, <<45, 53, 56, 55, 55, 54, 52, 50>>>>, <<1, <<43, 50, 49, 52, 55, 52, 56, 51, 54, 52, 55>>>>,
   <<1, <<43, 50, 49, 52, 55, 52, 56, 51, 54, 52, 56>>>>, <<1, <<45, 50, 49, 52, 55, 52, 56, 51, 54, 52, 56>>>>,
   <<1, <<45, 50, 49, 52, 55, 52, 56, 51, 54, 52, 57>>>>,
   <<1, <<43, 50, 53, 50, 53, 50, 55, 51, 52, 57, 50, 55, 55, 54, 56, 53, 50, 52>>>>,
   <<1, <<43, 50, 53, 50, 53, 50, 55, 51, 52, 57, 50, 55, 55, 54, 56, 53, 50, 53>>>>,
   <<1, <<45, 50, 53, 50, 53, 50, 55, 51, 52, 57, 50, 55, 55, 54, 52, 53, 56, 53>>>>,
   <<1, <<45, 50, 53, 50, 53, 50, 55, 51, 52, 57, 50, 55, 55, 54, 52, 53, 56, 54>>>>,
   <<1, <<43, 53, 48, 53, 48, 53, 52, 54, 57, 56, 53, 53, 53, 51, 53, 48, 56, 48>>>>,
   <<1, <<43, 57, 50, 50, 51, 51, 55, 50, 48, 51, 54, 56, 53, 52, 55, 55, 53, 56, 48, 55>>>>,
   <<1, <<43, 57, 50, 50, 51, 51, 55, 50, 48, 51, 54, 56, 53, 52, 55, 55, 53, 56, 48, 56>>>>,
   <<1, <<45, 57, 50, 50, 51, 51, 55, 50, 48, 51, 54, 56, 53, 52, 55, 55, 53, 56, 48, 56>>>>,
   <<1, <<45, 57, 50, 50, 51, 51, 55, 50, 48, 51, 54, 56, 53, 52, 55, 55, 53, 56, 48, 57>>>>,
   <<1, <<43, 49, 56, 52, 52, 54, 55, 52, 52, 48, 55, 51, 55, 48, 57, 53, 53, 49, 54, 49, 54>>>>,
   <<1, <<43, 57, 57, 57, 57, 57, 57, 57, 57, 57, 57, 57, 57, 57, 57, 57, 57, 57, 57, 57, 57, 57, 57, 57, 57, 57, 57>>>>,
   <<1, <<55, 48>>>>, <<1, <<43, 49, 57, 55, 48>>>>, <<1, <<49, 50, 51, 52, 53>>>>, <<1, <<45, 48, 48, 48, 48>>>>,
   <<1, <<43, 45, 49, 57, 55, 48>>>>, <<1, <<45, 43, 49, 57, 55, 48>>>>, <<1, <<48, 50, 48, 50, 52>>>>,
   <<1, <<43, 48, 50, 48, 50, 52>>>>, <<1, <<45, 57, 57, 57>>>>, <<1, <<>>>>, <<1, <<43>>>>,
   <<1, <<50, 48, 120, 52>>>>, <<1, <<65298, 65296, 65298, 65300>>>>}
GDtMonth ==
  {<<0, <<48, 50>>>>, <<1, <<48, 49>>>>, <<1, <<48, 51>>>>, <<1, <<48, 52>>>>, <<1, <<49, 49>>>>, <<1, <<49, 50>>>>,
   <<1, <<48, 48>>>>, <<1, <<49, 51>>>>, <<1, <<57, 57>>>>, <<1, <<50>>>>, <<1, <<48, 48, 50>>>>,
   <<1, <<51, 48, 48, 48, 48, 48, 48, 48, 48, 48>>>>,
   <<1, <<57, 57, 57, 57, 57, 57, 57, 57, 57, 57, 57, 57, 57, 57, 57, 57, 57, 57, 57, 57>>>>, <<1, <<>>>>,
   <<1, <<48, 120>>>>, <<1, <<45, 49>>>>}
GDtDay ==
  {<<0, <<50, 56>>>>, <<1, <<48, 49>>>>, <<1, <<50, 57>>>>, <<1, <<51, 48>>>>, <<1, <<51, 49>>>>, <<1, <<51, 50>>>>,
   <<1, <<48, 48>>>>, <<1, <<57, 57>>>>, <<1, <<49>>>>, <<1, <<48, 50, 56>>>>, <<1, <<>>>>,
   <<1, <<50, 49, 52, 55, 52, 56, 51, 54, 52, 56>>>>}
GDtHour ==
  {<<0, <<50, 51>>>>, <<1, <<48, 48>>>>, <<1, <<49, 50>>>>, <<1, <<50, 52>>>>, <<1, <<50, 53>>>>, <<1, <<57, 57>>>>,
   <<1, <<53>>>>, <<1, <<48, 50, 51>>>>, <<1, <<>>>>, <<1, <<45, 49>>>>}
GDtMin ==
  {<<0, <<53, 57>>>>, <<1, <<48, 48>>>>, <<1, <<51, 48>>>>, <<1, <<54, 48>>>>, <<1, <<57, 57>>>>, <<1, <<55>>>>,
   <<1, <<>>>>}
GDtSec ==
  {<<0, <<53, 57>>>>, <<1, <<48, 48>>>>, <<1, <<51, 48>>>>, <<1, <<54, 48>>>>, <<1, <<54, 49>>>>, <<1, <<57>>>>,
   <<1, <<48, 53, 57>>>>, <<1, <<>>>>}
GDtFrac ==
  {<<0, <<>>>>, <<1, <<46, 53>>>>, <<1, <<44, 53>>>>, <<1, <<46, 48>>>>, <<1, <<46, 52>>>>, <<1, <<46, 52, 57>>>>,
   <<1, <<46, 53, 48>>>>, <<1, <<46, 53, 49>>>>, <<1, <<46, 49, 50, 51>>>>, <<1, <<46, 57, 57, 57>>>>,
   <<1, <<46, 57, 57, 57, 52>>>>, <<1, <<46, 57, 57, 57, 53>>>>, <<1, <<46, 57, 57, 57, 54>>>>,
   <<1, <<46, 48, 48, 48, 52, 57, 57, 57, 57, 57>>>>, <<1, <<46, 48, 48, 48, 53>>>>,
   <<1, <<46, 48, 48, 48, 53, 48, 48, 48, 48, 49>>>>, <<1, <<46, 57, 57, 57, 57, 57, 57>>>>,
   <<1, <<46, 57, 57, 57, 57, 57, 57, 52>>>>, <<1, <<46, 57, 57, 57, 57, 57, 57, 53>>>>,
   <<1, <<46, 57, 57, 57, 57, 57, 57, 57, 57, 57>>>>, <<1, <<46, 52, 57, 57, 57, 57, 57, 57, 57, 57>>>>,
   <<1, <<46, 53, 48, 48, 48, 48, 48, 48, 48, 48>>>>, <<1, <<46, 53, 48, 48, 48, 48, 48, 48, 48, 49>>>>,
   <<1, <<46, 48, 48, 48, 48, 48, 48, 48, 48, 49>>>>, <<1, <<46, 48, 48, 48, 48, 48, 48, 48, 48, 48, 53>>>>,
   <<1, <<46, 57, 57, 57, 57, 57, 57, 57, 57, 57, 53>>>>, <<1, <<46, 48, 48, 48, 48, 48, 48, 48, 48, 48, 48>>>>,
   <<1, <<46, 49, 50, 51, 52, 53, 54, 55, 56, 57, 49>>>>, <<1, <<46, 52, 50, 57, 52, 57, 54, 55, 50, 57, 53>>>>,
   <<1, <<46, 52, 50, 57, 52, 57, 54, 55, 50, 57, 54>>>>,
   <<1, <<46, 57, 57, 57, 57, 57, 57, 57, 57, 57, 57, 57, 57, 57, 57, 57, 57, 57, 57, 57, 57>>>>, <<1, <<46>>>>,
   <<1, <<44>>>>, <<1, <<46, 120>>>>, <<1, <<46, 46, 53>>>>, <<1, <<46, 45, 53>>>>, <<1, <<46, 43, 53>>>>,
   <<1, <<46, 32, 53>>>>, <<1, <<59, 53>>>>}
GDtEnd ==
  {<<0, <<90>>>>, <<1, <<>>>>, <<1, <<122>>>>, <<1, <<90, 32>>>>, <<1, <<90, 120>>>>, <<1, <<32, 90>>>>,
   <<1, <<43, 48, 48, 58, 48, 48>>>>, <<1, <<90, 90>>>>, <<1, <<90, 0>>>>}
GDtSep1 ==
  {<<0, <<45>>>>, <<1, <<47>>>>, <<1, <<>>>>, <<1, <<45, 45>>>>, <<1, <<46>>>>}
GDtSepT ==
  {<<0, <<84>>>>, <<1, <<32>>>>, <<1, <<116>>>>, <<1, <<>>>>, <<1, <<84, 84>>>>}
GDtSepC ==
  {<<0, <<58>>>>, <<1, <<46>>>>, <<1, <<>>>>, <<1, <<45>>>>, <<1, <<58, 58>>>>}

GDuSign ==
  {<<0, <<>>>>, <<1, <<45>>>>, <<1, <<43>>>>, <<1, <<45, 45>>>>, <<1, <<43, 45>>>>, <<1, <<32>>>>, <<1, <<112>>>>}
GDuW ==
  {<<0, <<>>>>, <<1, <<49, 87>>>>, <<1, <<48, 87>>>>, <<1, <<51, 53, 87>>>>,
   <<1, <<49, 53, 50, 53, 48, 50, 56, 52, 52, 53, 50, 52, 55, 49, 87>>>>,
   <<1, <<49, 53, 50, 53, 48, 50, 56, 52, 52, 53, 50, 52, 55, 50, 87>>>>,
   <<1, <<51, 48, 53, 48, 48, 53, 54, 56, 57, 48, 52, 57, 52, 51, 87>>>>,
   <<1, <<51, 48, 53, 48, 48, 53, 54, 56, 57, 48, 52, 57, 52, 52, 87>>>>, <<1, <<49, 46, 53, 87>>>>,
   <<1, <<49, 89>>>>, <<1, <<87>>>>}
GDuD ==
  {<<0, <<49, 68>>>>, <<0, <<>>>>, <<1, <<48, 68>>>>, <<1, <<50, 53, 68>>>>, <<1, <<49, 48, 54, 55, 53, 49, 68>>>>,
   <<1, <<49, 48, 54, 55, 53, 50, 68>>>>, <<1, <<50, 52, 56, 53, 53, 68>>>>, <<1, <<50, 52, 56, 53, 54, 68>>>>,
   <<1, <<49, 50, 55, 68>>>>, <<1, <<49, 50, 56, 68>>>>,
   <<1, <<49, 48, 54, 55, 53, 49, 57, 57, 49, 49, 54, 55, 51, 48, 48, 68>>>>,
   <<1, <<49, 48, 54, 55, 53, 49, 57, 57, 49, 49, 54, 55, 51, 48, 49, 68>>>>,
   <<1, <<50, 49, 51, 53, 48, 51, 57, 56, 50, 51, 51, 52, 54, 48, 49, 68>>>>,
   <<1, <<50, 49, 51, 53, 48, 51, 57, 56, 50, 51, 51, 52, 54, 48, 50, 68>>>>,
   <<1, <<57, 50, 50, 51, 51, 55, 50, 48, 51, 54, 56, 53, 52, 55, 55, 53, 56, 48, 55, 68>>>>,
   <<1, <<57, 50, 50, 51, 51, 55, 50, 48, 51, 54, 56, 53, 52, 55, 55, 53, 56, 48, 56, 68>>>>,
   <<1, <<49, 56, 52, 52, 54, 55, 52, 52, 48, 55, 51, 55, 48, 57, 53, 53, 49, 54, 49, 53, 68>>>>,
   <<1, <<49, 56, 52, 52, 54, 55, 52, 52, 48, 55, 51, 55, 48, 57, 53, 53, 49, 54, 49, 54, 68>>>>,
   <<1, <<57, 57, 57, 57, 57, 57, 57, 57, 57, 57, 57, 57, 57, 57, 57, 57, 57, 57, 57, 57, 57, 57, 57, 57, 57, 57, 68>>>>,
   <<1, <<48, 46, 53, 68>>>>, <<1, <<49, 77>>>>, <<1, <<49, 89>>>>, <<1, <<68>>>>, <<1, <<45, 49, 68>>>>,
   <<1, <<48, 49, 68>>>>, <<1, <<49, 100>>>>}
GDuT ==
  {<<0, <<84>>>>, <<0, <<>>>>, <<1, <<84, 84>>>>, <<1, <<116>>>>, <<1, <<32, 84>>>>}
GDuH ==
  {<<0, <<50, 72>>>>, <<0, <<>>>>, <<1, <<48, 72>>>>, <<1, <<50, 51, 72>>>>, <<1, <<50, 52, 72>>>>,
   <<1, <<49, 50, 55, 72>>>>, <<1, <<49, 50, 56, 72>>>>,
   <<1, <<50, 53, 54, 50, 48, 52, 55, 55, 56, 56, 48, 49, 53, 50, 49, 53, 72>>>>,
   <<1, <<50, 53, 54, 50, 48, 52, 55, 55, 56, 56, 48, 49, 53, 50, 49, 54, 72>>>>,
   <<1, <<53, 49, 50, 52, 48, 57, 53, 53, 55, 54, 48, 51, 48, 52, 51, 49, 72>>>>,
   <<1, <<53, 49, 50, 52, 48, 57, 53, 53, 55, 54, 48, 51, 48, 52, 51, 50, 72>>>>,
   <<1, <<49, 56, 52, 52, 54, 55, 52, 52, 48, 55, 51, 55, 48, 57, 53, 53, 49, 54, 49, 53, 72>>>>,
   <<1, <<49, 56, 52, 52, 54, 55, 52, 52, 48, 55, 51, 55, 48, 57, 53, 53, 49, 54, 49, 54, 72>>>>,
   <<1, <<49, 46, 53, 72>>>>, <<1, <<72>>>>, <<1, <<50, 104>>>>, <<1, <<50, 68>>>>, <<1, <<50, 87>>>>}
GDuM ==
  {<<0, <<51, 77>>>>, <<0, <<>>>>, <<1, <<48, 77>>>>, <<1, <<51, 48, 77>>>>, <<1, <<53, 57, 77>>>>,
   <<1, <<54, 48, 77>>>>, <<1, <<57, 48, 77>>>>, <<1, <<49, 50, 55, 77>>>>, <<1, <<49, 50, 56, 77>>>>,
   <<1, <<54, 48, 48, 77>>>>, <<1, <<49, 53, 51, 55, 50, 50, 56, 54, 55, 50, 56, 48, 57, 49, 50, 57, 51, 48, 77>>>>,
   <<1, <<49, 53, 51, 55, 50, 50, 56, 54, 55, 50, 56, 48, 57, 49, 50, 57, 51, 49, 77>>>>,
   <<1, <<51, 48, 55, 52, 52, 53, 55, 51, 52, 53, 54, 49, 56, 50, 53, 56, 54, 48, 77>>>>,
   <<1, <<51, 48, 55, 52, 52, 53, 55, 51, 52, 53, 54, 49, 56, 50, 53, 56, 54, 49, 77>>>>,
   <<1, <<49, 56, 52, 52, 54, 55, 52, 52, 48, 55, 51, 55, 48, 57, 53, 53, 49, 54, 49, 53, 77>>>>,
   <<1, <<49, 56, 52, 52, 54, 55, 52, 52, 48, 55, 51, 55, 48, 57, 53, 53, 49, 54, 49, 54, 77>>>>,
   <<1, <<51, 44, 53, 77>>>>, <<1, <<77>>>>, <<1, <<51, 89>>>>}
GDuS ==
  {<<0, <<52, 83>>>>, <<0, <<>>>>, <<1, <<48, 83>>>>, <<1, <<53, 57, 83>>>>, <<1, <<54, 48, 83>>>>,
   <<1, <<49, 56, 48, 48, 83>>>>, <<1, <<51, 54, 48, 48, 83>>>>, <<1, <<56, 54, 52, 48, 48, 83>>>>,
   <<1, <<49, 50, 55, 83>>>>, <<1, <<49, 50, 56, 83>>>>, <<1, <<50, 49, 52, 55, 52, 56, 51, 54, 52, 55, 83>>>>,
   <<1, <<50, 49, 52, 55, 52, 56, 51, 54, 52, 56, 83>>>>, <<1, <<57, 50, 50, 51, 51, 55, 50, 48, 51, 54, 83>>>>,
   <<1, <<57, 50, 50, 51, 51, 55, 50, 48, 51, 55, 83>>>>,
   <<1, <<57, 50, 50, 51, 51, 55, 50, 48, 51, 54, 56, 53, 52, 55, 55, 53, 56, 48, 55, 83>>>>,
   <<1, <<57, 50, 50, 51, 51, 55, 50, 48, 51, 54, 56, 53, 52, 55, 55, 53, 56, 48, 56, 83>>>>,
   <<1, <<49, 56, 52, 52, 54, 55, 52, 52, 48, 55, 51, 55, 48, 57, 53, 53, 49, 54, 49, 53, 83>>>>,
   <<1, <<49, 56, 52, 52, 54, 55, 52, 52, 48, 55, 51, 55, 48, 57, 53, 53, 49, 54, 49, 54, 83>>>>,
   <<1, <<57, 57, 57, 57, 57, 57, 57, 57, 57, 57, 57, 57, 57, 57, 57, 57, 57, 57, 57, 57, 57, 57, 57, 57, 57, 57, 83>>>>,
   <<1, <<48, 46, 53, 83>>>>, <<1, <<48, 44, 53, 83>>>>, <<1, <<49, 46, 53, 83>>>>, <<1, <<50, 46, 53, 83>>>>,
   <<1, <<48, 46, 52, 83>>>>, <<1, <<48, 46, 54, 83>>>>, <<1, <<48, 46, 52, 57, 57, 83>>>>,
   <<1, <<48, 46, 53, 48, 49, 83>>>>, <<1, <<48, 46, 48, 48, 48, 53, 83>>>>, <<1, <<48, 46, 57, 57, 57, 53, 83>>>>,
   <<1, <<48, 46, 48, 48, 48, 48, 48, 48, 53, 83>>>>, <<1, <<48, 46, 57, 57, 57, 57, 57, 57, 53, 83>>>>,
   <<1, <<48, 46, 48, 48, 48, 48, 48, 48, 48, 48, 49, 83>>>>,
   <<1, <<48, 46, 57, 57, 57, 57, 57, 57, 57, 57, 57, 83>>>>,
   <<1, <<48, 46, 48, 48, 48, 48, 48, 48, 48, 48, 48, 53, 83>>>>,
   <<1, <<48, 46, 57, 57, 57, 57, 57, 57, 57, 57, 57, 53, 83>>>>,
   <<1, <<48, 46, 48, 48, 48, 48, 48, 48, 48, 48, 48, 48, 83>>>>,
   <<1, <<48, 46, 49, 50, 51, 52, 53, 54, 55, 56, 57, 49, 83>>>>,
   <<1, <<57, 50, 50, 51, 51, 55, 50, 48, 51, 54, 46, 56, 53, 52, 55, 55, 53, 56, 48, 55, 83>>>>,
   <<1, <<57, 50, 50, 51, 51, 55, 50, 48, 51, 54, 46, 56, 53, 52, 55, 55, 53, 56, 48, 56, 83>>>>,
   <<1, <<57, 50, 50, 51, 51, 55, 50, 48, 51, 54, 46, 56, 53, 52, 55, 55, 53, 56, 48, 57, 83>>>>,
   <<1, <<50, 46, 49, 52, 55, 52, 56, 51, 54, 52, 55, 83>>>>,
   <<1, <<50, 46, 49, 52, 55, 52, 56, 51, 54, 52, 56, 83>>>>, <<1, <<48, 46, 49, 50, 55, 83>>>>,
   <<1, <<48, 46, 49, 50, 56, 83>>>>, <<1, <<48, 46, 49, 50, 55, 53, 83>>>>, <<1, <<48, 46, 49, 50, 56, 53, 83>>>>,
   <<1, <<46, 53, 83>>>>, <<1, <<49, 46, 83>>>>, <<1, <<49, 46, 53>>>>, <<1, <<49, 46, 53, 77>>>>,
   <<1, <<49, 46, 46, 53, 83>>>>, <<1, <<49, 46, 53, 46, 53, 83>>>>, <<1, <<83>>>>, <<1, <<52, 115>>>>,
   <<1, <<52>>>>, <<1, <<52, 83, 53, 83>>>>}
GDuEnd ==
  {<<0, <<>>>>, <<1, <<32>>>>, <<1, <<32, 120>>>>, <<1, <<10>>>>, <<1, <<9, 80, 49, 68>>>>, <<1, <<120>>>>,
   <<1, <<90>>>>, <<1, <<84>>>>, <<1, <<0>>>>, <<1, <<47, 80, 49, 68>>>>}

-----------------------------------------------------------------------------
DtStages == <<GDtYear, GDtSep1, GDtMonth, GDtSep1, GDtDay, GDtSepT, GDtHour, GDtSepC, GDtMin, GDtSepC, GDtSec, GDtFrac, GDtEnd>>
DuStages == <<GDuSign, {<<0, <<80>>>>, <<1, <<>>>>, <<1, <<80, 80>>>>}, GDuW, GDuD, GDuT, GDuH, GDuM, GDuS, GDuEnd>>

Init ==
  /\ kind \in Kinds
  /\ out = (IF kind = "du" THEN "du" ELSE "dt")
  /\ stage = 1 /\ txt = <<>> /\ dev = 0

\* a finished text carries the label of the action that produced it (vacuity guard of the check: every label must occur)
Finish(t, o, lbl) == txt' = t /\ out' = o /\ stage' = 0 /\ dev' = 0 /\ kind' = lbl

\* --- one action per production of the date-time grammar ------------------------------------------------
DtProduction(i) ==
  /\ kind = "dt" /\ stage = i
  /\ \E ch \in DtStages[i] :
        /\ dev + ch[1] <= MaxDevDt
        /\ IF i = Len(DtStages) THEN Finish(txt \o ch[2], "dt", "dt")
           ELSE txt' = txt \o ch[2] /\ dev' = dev + ch[1] /\ stage' = i + 1 /\ UNCHANGED <<kind, out>>
DtYearP == DtProduction(1)   DtSepYM == DtProduction(2)   DtMonthP == DtProduction(3)   DtSepMD == DtProduction(4)
DtDayP == DtProduction(5)    DtSepDT == DtProduction(6)   DtHourP == DtProduction(7)    DtSepHM == DtProduction(8)
DtMinP == DtProduction(9)    DtSepMS == DtProduction(10)  DtSecP == DtProduction(11)    DtFracP == DtProduction(12)
DtEndP == DtProduction(13)

\* --- one action per production of the duration grammar -------------------------------------------------
DuProduction(i) ==
  /\ kind = "du" /\ stage = i
  /\ \E ch \in DuStages[i] :
        /\ dev + ch[1] <= MaxDevDu
        /\ IF i = Len(DuStages) THEN Finish(txt \o ch[2], "du", "du")
           ELSE txt' = txt \o ch[2] /\ dev' = dev + ch[1] /\ stage' = i + 1 /\ UNCHANGED <<kind, out>>
DuSignP == DuProduction(1)  DuPP == DuProduction(2)  DuWeeksP == DuProduction(3)  DuDaysP == DuProduction(4)
DuTP == DuProduction(5)     DuHoursP == DuProduction(6)  DuMinutesP == DuProduction(7)  DuSecondsP == DuProduction(8)
DuEndP == DuProduction(9)

\* --- calendar product: every month end of representative years ----------------------------------------
CalYears == {<<FALSE, <<2, 0, 2, 3>>>>, <<FALSE, <<2, 0, 2, 4>>>>, <<FALSE, <<1, 9, 0, 0>>>>, <<FALSE, <<2, 0, 0, 0>>>>, <<FALSE, <<2, 1, 0, 0>>>>,
             <<FALSE, <<0, 0, 0, 0>>>>, <<TRUE, <<0, 0, 0, 1>>>>, <<TRUE, <<0, 0, 0, 4>>>>, <<TRUE, <<0, 1, 0, 0>>>>, <<TRUE, <<0, 4, 0, 0>>>>,
             <<FALSE, <<1, 9, 6, 8>>>>, <<FALSE, <<1, 9, 6, 9>>>>, <<FALSE, <<1, 0, 0, 0, 0>>>>, <<FALSE, <<1, 0, 0, 0, 4>>>>}
Calendar ==
  /\ kind = "cal" /\ stage = 1
  /\ \E y \in CalYears, m \in 1..12, d \in {1, 27, 28, 29, 30, 31, 32}, h \in {0, 23} :
        Finish((IF y[1] THEN <<ChMinus>> ELSE IF Len(y[2]) > 4 THEN <<ChPlus>> ELSE <<>>) \o DigitCodes(y[2]) \o <<ChMinus>> \o D2(m) \o <<ChMinus>> \o D2(d)
               \o <<ChT>> \o D2(h) \o <<ChColon>> \o D2(IF h = 0 THEN 0 ELSE 59) \o <<ChColon>> \o D2(IF h = 0 THEN 0 ELSE 59) \o <<ChZ>>, "dt", "cal")

\* --- February / March boundary of every year class: Feb 28, 29, 30 and Mar 1 for every century year of -2000..2400
\* (all residues of year mod 400 - and mod 800, 1600 - for positive, negative and year-0 cases), the years around
\* century and 400-year boundaries, plain leap and common years, and five-digit years.  A leap-year rule that is wrong
\* for a single residue class (e.g. only for years = 200 mod 400) must show up here.
FebYears == {100 * k : k \in -20..24} \cup (1895..1905) \cup (1995..2005) \cup (2095..2105) \cup (-5..5) \cup (95..105) \cup (195..205)
            \cup (395..405) \cup (-105..-95) \cup (-205..-195) \cup (-405..-395) \cup {10000, 10100, 10200, 10300, 10400, 10004, 10001, -10000, -9900, -9800}
CalendarFeb ==
  /\ kind = "cal" /\ stage = 1
  /\ \E y \in FebYears, md \in {<<2, 28>>, <<2, 29>>, <<2, 30>>, <<3, 1>>} :
        Finish(YearCodes(FromInt(y)) \o <<ChMinus>> \o D2(md[1]) \o <<ChMinus>> \o D2(md[2]) \o <<ChT, 48, 48, ChColon, 48, 48, ChColon, 48, 48, ChZ>>, "dt", "cal-feb")

\* --- limit neighbourhoods: instants around min / max of every (unit, representation), on the nanosecond grid
HalfTick(u) == DivModSmall(MulChain(One, NsChain(u)), 2).q
LimitDeltas(u) == {Zero, One, FromInt(-1), HalfTick(u), Neg(HalfTick(u)), AddSmall(HalfTick(u), 1), AddSmall(HalfTick(u), -1),
                   AddSmall(Neg(HalfTick(u)), 1), AddSmall(Neg(HalfTick(u)), -1)}
LimitInstants ==
  UNION { { Add(MulChain(Add(lim, FromInt(k)), NsChain(u)), dl) :
               lim \in {I64Min, I64Max, I32Min, I32Max, U64Max, I8Min, I8Max, Zero}, k \in {-1, 0, 1}, dl \in LimitDeltas(u) } :
          u \in {"ns", "us", "ms", "s", "min", "h", "d"} }
LimitDt == kind = "lim" /\ stage = 1 /\ \E n \in LimitInstants : Finish(IsoPrintCodes(n, "ns"), "dt", "lim-dt")
LimitDu == kind = "lim" /\ stage = 1 /\ \E n \in LimitInstants : Finish(DurPrintCodes(n, "ns"), "du", "lim-du")

\* --- extreme component counts of durations: for every designator (W D H M S) a single component whose count is at /
\* just above  L div k  for L in {2^63-1, 2^63, 2^64-1} and every factor k by which a count may get multiplied on its way
\* to a target (7, 24, 60, 168, 1440, 3600, 10080, 86400, 604800, each also times 10^3, 10^6, 10^9), plus 2^64-1, 2^64,
\* 10^19 and 10^20-1, with both signs.  An unchecked multiplication anywhere between the parsed count and the target
\* representation wraps for one of these (e.g. P2635249153387078803W: count * 7 exceeds 2^64).
ExtremeUnitChains == {<<>>, <<7>>, <<24>>, <<60>>, <<168>>, <<1440>>, <<3600>>, <<10080>>, <<86400>>, <<86400, 7>>}
ExtremeTickChains == {<<>>, <<1000>>, <<1000, 1000>>, <<1000, 1000, 1000>>}
ExtremeCounts ==
  UNION {{AddSmall(DivModChain(lim, uc \o tc).q, dd) : dd \in {0, 1}} : lim \in {I64Max, Pow2(63), U64Max}, uc \in ExtremeUnitChains, tc \in ExtremeTickChains}
  \cup {U64Max, AddSmall(U64Max, 1), Pow10(19), AddSmall(Pow10(20), -1)}
DuExtreme ==
  /\ kind = "lim" /\ stage = 1
  /\ \E n \in ExtremeCounts, ds \in {ChW, ChD, ChH, ChM, ChS}, neg \in BOOLEAN :
        Finish((IF neg THEN <<ChMinus>> ELSE <<>>) \o <<ChP>> \o (IF ds \in {ChW, ChD} THEN <<>> ELSE <<ChT>>) \o NatCodes(n.mag) \o <<ds>>, "du", "du-extreme")

\* --- fractions: every digit string of 1..FracLen digits, boundary patterns and seeded long ones -------
FracPrefixDt == <<49, 57, 55, 48, 45, 48, 49, 45, 48, 49, 84, 48, 48, 58, 48, 48, 58, 48, 48, 46>>   \* 1970-01-01T00:00:00.
FracPrefixDu == <<80, 84, 48, 46>>                                                                  \* PT0.
FracDigit == kind = "frac" /\ stage = 1 /\ Len(txt) < FracLen /\ \E d \in 0..9 :
                txt' = Append(txt, 48 + d) /\ UNCHANGED <<kind, out, stage, dev>>
FracEndDt == kind = "frac" /\ stage = 1 /\ Len(txt) >= 1 /\ Finish(FracPrefixDt \o txt \o <<ChZ>>, "dt", "frac-dt")
FracEndDu == kind = "frac" /\ stage = 1 /\ Len(txt) >= 1 /\ Finish(FracPrefixDu \o txt \o <<ChS>>, "du", "frac-du")
\* i-th seeded fraction: 5..9 digits from a small congruential scheme (all products stay below 2^31)
SeededFrac(i) ==
  LET len == 5 + ((i + Seed) % 5)
      Dg(j) == ((((i * 7919) + (Seed * 104729)) % 1000003) * (j + 13) + (j * j * 31) + (i \div 7)) % 10
  IN [j \in 1..len |-> 48 + Dg(j)]
\* patterns around the rounding boundaries of every precision: d 4 9.. / d 5 0.. / d 5 0..1 with the break after 0, 3, 6 kept digits
BoundaryFracs ==
  { [j \in 1..len |-> 48 + (IF j <= keep THEN (IF j = keep THEN lastkept ELSE fill) ELSE IF j = keep + 1 THEN brk ELSE IF j = len THEN tail ELSE mid)] :
       keep \in {0, 3, 6, 8}, len \in 1..9, lastkept \in {0, 9}, fill \in {0, 9}, brk \in {4, 5}, mid \in {0, 9}, tail \in {0, 1, 9} }
FracSeededDt == kind = "frac" /\ stage = 1 /\ txt = <<>> /\ \E i \in 1..FracSample : Finish(FracPrefixDt \o SeededFrac(i) \o <<ChZ>>, "dt", "fracseed-dt")
FracSeededDu == kind = "frac" /\ stage = 1 /\ txt = <<>> /\ \E i \in 1..FracSample : Finish(FracPrefixDu \o SeededFrac(i) \o <<ChS>>, "du", "fracseed-du")
FracBoundaryDt == kind = "frac" /\ stage = 1 /\ txt = <<>> /\ \E f \in BoundaryFracs : Finish(FracPrefixDt \o f \o <<ChZ>>, "dt", "fracbound-dt")
FracBoundaryDu == kind = "frac" /\ stage = 1 /\ txt = <<>> /\ \E f \in BoundaryFracs : Finish(FracPrefixDu \o f \o <<ChS>>, "du", "fracbound-du")

\* --- mutation: delete / insert / replace one character of a valid text ---------------------------------
MutAlphabet == {48, 49, 57, 45, 43, 46, 44, 58, 84, 90, 80, 68, 83, 77, 32, 120, 0, 233, 1632, 65297, 120793}
MutBaseList ==
  << <<"dt", IsoPrintCodes(FromInt(1709251199), "s")>>,                      \* 2024-02-29T23:59:59Z
     <<"du", DurPrintCodes(FromInt(-788645005), "ms")>>,                     \* -P9DT3H4M5.005S
     <<"dt", IsoPrintCodes(FromInt(-1), "ms")>>,                             \* 1969-12-31T23:59:59.999Z
     <<"du", <<80, 51, 87, 50, 68, 84, 49, 72, 50, 77, 51, 44, 53, 83>>>>,   \* P3W2DT1H2M3,5S
     <<"dt", IsoPrintCodes(MulChain(FromInt(1000000), <<86400, 4>>), "s")>>, \* +12921-..: signed year
     <<"dt", IsoPrintCodes(I64Min, "us")>>,                                  \* negative year, fraction
     <<"du", <<80, 84, 48, 83>>>>,                                           \* PT0S
     <<"du", <<43, 80, 49, 68>>>>,                                           \* +P1D
     <<"dt", IsoPrintCodes(I64Max, "ns")>>,
     <<"du", DurPrintCodes(I64Max, "ns")>> >>
Mutate ==
  /\ kind = "mut" /\ stage = 1
  /\ \E b \in 1..MutBases :
        LET base == MutBaseList[b][2] o == MutBaseList[b][1] n == Len(base) IN
        \/ Finish(base, o, "mut-base")
        \/ \E p \in 1..n : Finish(SubSeq(base, 1, p - 1) \o SubSeq(base, p + 1, n), o, "mut-delete")                \* delete
        \/ \E p \in 1..(n + 1), c \in MutAlphabet : Finish(SubSeq(base, 1, p - 1) \o <<c>> \o SubSeq(base, p, n), o, "mut-insert")   \* insert
        \/ \E p \in 1..n : \E c \in MutAlphabet \ {base[p]} : Finish(SubSeq(base, 1, p - 1) \o <<c>> \o SubSeq(base, p + 1, n), o, "mut-replace") \* replace

\* --- aliasing mutation for the wide string types: one character c of a valid text is replaced by a code point whose low
\* byte is c (c + 256, c + 512, and the supplementary-plane c + 0x1F400).  A parser that narrows char16_t / char32_t /
\* wchar_t input by truncation instead of transcoding would read the original valid text; the expected outcome is
\* InvalidArgument for every target and every string width.
MutateAlias ==
  /\ kind = "mut" /\ stage = 1
  /\ \E b \in 1..MutBases :
        LET base == MutBaseList[b][2] o == MutBaseList[b][1] n == Len(base) IN
        \E p \in 1..n, k \in {256, 512, 128000} : Finish(SubSeq(base, 1, p - 1) \o <<base[p] + k>> \o SubSeq(base, p + 1, n), o, "mut-alias")

Next ==
  \/ DtYearP \/ DtSepYM \/ DtMonthP \/ DtSepMD \/ DtDayP \/ DtSepDT \/ DtHourP \/ DtSepHM \/ DtMinP \/ DtSepMS \/ DtSecP \/ DtFracP \/ DtEndP
  \/ DuSignP \/ DuPP \/ DuWeeksP \/ DuDaysP \/ DuTP \/ DuHoursP \/ DuMinutesP \/ DuSecondsP \/ DuEndP
  \/ Calendar \/ CalendarFeb \/ LimitDt \/ LimitDu \/ DuExtreme
  \/ FracDigit \/ FracEndDt \/ FracEndDu \/ FracSeededDt \/ FracSeededDu \/ FracBoundaryDt \/ FracBoundaryDu
  \/ Mutate \/ MutateAlias

Spec == Init /\ [][Next]_vars

-----------------------------------------------------------------------------
\* model-level sanity of the generator and of the specification it is built from
TypeOK == stage \in 0..13 /\ out \in {"dt", "du"} /\ dev \in 0..3
\* every finished text gets a verdict for every target (totality of the specification), and a strict text is never rejected
Total ==
  stage = 0 =>
     IF out = "dt" THEN LET p == DtParse(txt) IN
          /\ \A u \in {"ns", "s", "d"}, r \in {"i64", "i8", "u64"} : DtAllowedP(txt, p, u, r) # {}
          /\ (p.ok /\ p.strict /\ DtFieldsOK(p)) => "I" \notin DtAllowedP(txt, p, "s", "i64")
     ELSE LET p == DurParse(txt) IN
          /\ \A u \in {"ns", "s", "d"}, r \in {"i64", "i8", "u64"} : DurAllowedP(txt, p, u, r) # {}
          /\ (p.ok /\ p.strict) => "I" \notin DurAllowedP(txt, p, "s", "i64")

Export == stage = 0 => PrintT(<<"GEN", ToJson([k |-> out, g |-> kind, t |-> txt])>>)
=============================================================================
