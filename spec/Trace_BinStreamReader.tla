------------------------ MODULE Trace_BinStreamReader ------------------------
(* Trace validation: every trace recorded from the real CBinaryStreamReader    *)
(* (harness/bsr_harness.cpp) must be a behaviour of M (results *and* private   *)
(* window state after every call) and must satisfy A (ByteCursor).             *)
EXTENDS BinStreamReader, Json, IOUtils, SequencesExt

CONSTANT Fix            \* variant of SetPosition the current tree implements

VARIABLE dummy

Traces == ndJsonDeserialize(IOEnv.TRACE)

\* projected private state as logged: <<bstart, bend, spos, eof, fail>>
StateEq(m, st) ==
  /\ m.bstart = st[1] /\ m.bend = st[2] /\ m.spos = st[3]
  /\ m.st.eofb = (st[4] = 1) /\ m.st.failb = (st[5] = 1)

BytesOK(t, off, bytes) ==
  \A i \in 1..Len(bytes) : bytes[i] = PatByte(t.mul, t.add, off + i - 1)

\* One event: returns [m, a, why]   (why = "" when the event is accepted)
StepEv(t, m, a, e) ==
  LET op == e.op IN
  IF op = "peek" THEN
      LET rm == MPeekByte(m) ra == APeekByte(a) IN
      [m |-> rm.m, a |-> ra.a,
       why |-> IF (rm.res = -1) # (e.res = -1) \/ (rm.res # -1 /\ e.res # PatByte(t.mul, t.add, rm.res)) THEN "M-res"
               ELSE IF rm.res # ra.res THEN "A-res" ELSE ""]
  ELSE IF op = "goto" THEN
      LET rm == MGotoNextByte(m) ra == AGotoNextByte(a) IN [m |-> rm.m, a |-> ra.a, why |-> ""]
  ELSE IF op = "readbyte" THEN
      LET rm == MReadByte(m) ra == AReadByte(a) IN
      [m |-> rm.m, a |-> ra.a,
       why |-> IF (rm.res = -1) # (e.res = -1) \/ (rm.res # -1 /\ e.res # PatByte(t.mul, t.add, rm.res)) THEN "M-res"
               ELSE IF rm.res # ra.res THEN "A-res" ELSE ""]
  ELSE IF op = "solid" THEN
      LET rm == MReadSolidBlock(m, e.arg) ra == AReadSolidBlock(a, e.arg) IN
      [m |-> rm.m, a |-> ra.a,
       why |-> IF Len(e.res) # rm.res.n \/ ~BytesOK(t, rm.res.off, e.res) THEN "M-res"
               ELSE IF ~ViewEq(rm.res, ra.res) THEN "A-res" ELSE ""]
  ELSE IF op = "chunks" THEN
      LET rm == MReadByChunks(m, e.arg) IN
      [m |-> rm.m, a |-> [a EXCEPT !.pos = @ + rm.res.n],
       why |-> IF Len(e.res) # rm.res.n \/ ~BytesOK(t, rm.res.off, e.res) THEN "M-res"
               ELSE IF ~AReadByChunksOK(a, e.arg, rm.res) THEN "A-res" ELSE ""]
  ELSE \* setpos
      LET rm == MSetPosition(m, e.arg, Fix) ra == ASetPosition(a, e.arg) IN
      [m |-> rm.m, a |-> ra.a,
       why |-> IF rm.res # e.res THEN "M-res" ELSE IF rm.res # ra.res THEN "A-res" ELSE ""]

RECURSIVE Walk(_, _, _, _)
Walk(t, i, m, a) ==
  IF i > Len(t.ev) THEN [bad |-> 0, why |-> "", dev |-> ""]
  ELSE LET e == t.ev[i]
           s == StepEv(t, m, a, e)
       IN IF s.why = "M-res" THEN [bad |-> i, why |-> s.why, dev |-> ""]
          ELSE IF ~StateEq(s.m, e.st) THEN [bad |-> i, why |-> "M-state", dev |-> ""]
          ELSE IF s.why = "A-res" THEN
                 [bad |-> i, why |-> s.why,
                  dev |-> IF e.op = "setpos" /\ ~t.seekable /\ e.refused THEN "Dev_NonSeekableStream" ELSE ""]
          ELSE IF e.op = "setpos" /\ e.res = FALSE THEN [bad |-> 0, why |-> "", dev |-> ""]  \* behaviour ends here
          ELSE IF e.pos # s.a.pos THEN [bad |-> i, why |-> "A-pos", dev |-> ""]
          ELSE IF e.isend # (s.a.pos = s.a.len) THEN [bad |-> i, why |-> "A-isend", dev |-> ""]
          ELSE Walk(t, i + 1, s.m, s.a)

Verdict(t) ==
  LET m0 == MInit(t.len, t.seekable, t.pastend, t.chunk) IN
  IF ~StateEq(m0, t.init) THEN [bad |-> -1, why |-> "M-init", dev |-> ""]
  ELSE Walk(t, 1, m0, [len |-> t.len, pos |-> 0, C |-> t.chunk])

ASSUME \A i \in 1..Len(Traces) :
          LET v == Verdict(Traces[i]) IN
          v.bad = 0 \/ PrintT(<<"BAD", ToJson([id |-> Traces[i].id, bad |-> v.bad, why |-> v.why, dev |-> v.dev])>>)
ASSUME PrintT(<<"CHECKED", ToJson([n |-> Len(Traces)])>>)

Init == dummy = 0
Next == UNCHANGED dummy
=============================================================================
