INIT Init
NEXT Next
