--------------------------- MODULE Trace_Unicode12 ---------------------------
(* C12 trace validation: every observation logged by harness/utf_harness.cpp (mode c12) must be      *)
(* explained by SOME behaviour of the decoder transition system of Unicode.tla.                       *)
(* Record: [id, sf, tw, u, runs]; run: [pols, api, out, code, it, cnt].  The output was appended to   *)
(* the one-unit string "x"; that prefix must be intact.                                               *)
EXTENDS Unicode, Json, IOUtils

Traces == ndJsonDeserialize(IOEnv.TRACE)

CustomMarkCps == <<60, 191, 62>>      \* "<", U+00BF, ">"

PolSkip(pol) == pol \in {"def", "cust", "empty", "null"}
PolMark(pol, tw) == IF pol = "def" THEN DefaultMark(tw) ELSE IF pol = "cust" THEN EncodeCps(tw, CustomMarkCps) ELSE <<>>

Units(t) == IF t.sf = 32 THEN [k \in DOMAIN t.u |-> U32FromHalves(t.u[k])] ELSE t.u

Problem(t, pol) == [w |-> t.sf, u |-> Units(t), tw |-> t.tw, skip |-> PolSkip(pol), mark |-> PolMark(pol, t.tw),
                    allowUE |-> TRUE, partial |-> FALSE, h |-> IF t.sf = 32 THEN t.u ELSE <<>>]

UnitsLegal(out, tw) == \A k \in DOMAIN out : out[k] >= 0 /\ (tw = 32 \/ out[k] < (IF tw = 8 THEN 256 ELSE 65536))

\* verdict of one run under one policy: [ok, why, dev]
RunVerdict(t, r, pol) ==
  IF Len(r.out) < 1 \/ r.out[1] # 120 THEN [ok |-> FALSE, why |-> "prefix of the output string damaged", dev |-> ""]
  ELSE IF ~UnitsLegal(r.out, t.tw) THEN [ok |-> FALSE, why |-> "output unit out of range", dev |-> ""]
  ELSE IF r.it < 0 \/ r.it > Len(t.u) THEN [ok |-> FALSE, why |-> "iterator outside the input", dev |-> ""]
  ELSE LET obs == [out |-> SubSeq(r.out, 2, Len(r.out)), code |-> r.code, it |-> r.it, cnt |-> r.cnt]
           v   == Verdict(Problem(t, pol), obs)
       IN [ok |-> v.ok, why |-> "no DecStep behaviour explains the observation", dev |-> v.dev]

Report(t, j, pol, v) ==
  PrintT(<<"BAD", ToJson([id |-> t.id, run |-> j, pol |-> pol, why |-> v.why, dev |-> v.dev])>>)

ASSUME \A i \in 1..Len(Traces) :
         LET t == Traces[i] IN
         \A j \in 1..Len(t.runs) : \A q \in 1..Len(t.runs[j].pols) :
            LET pol == t.runs[j].pols[q]  v == RunVerdict(t, t.runs[j], pol) IN v.ok \/ Report(t, j, pol, v)
ASSUME PrintT(<<"CHECKED", ToJson([n |-> Len(Traces)])>>)

VARIABLE dummy
Init == dummy = 0
Next == UNCHANGED dummy
=============================================================================
