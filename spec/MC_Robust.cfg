SPECIFICATION Spec
CONSTANTS
  Formats = {"msgpack", "json", "xml", "csv"}
  CorpusLevel = 1
  FlipMsgPack = {0, 145, 193, 219, 221, 223, 255}
  FlipJson = {0, 34, 44, 57, 91, 125, 255}
  FlipXml = {0, 38, 47, 60, 62, 255}
  FlipCsv = {0, 10, 34, 44, 255}
  NestDepths = {10, 100, 1000, 10000, 100000}
  WideSizes = {100, 100000}
  AdvLevel = 1
INVARIANTS TypeOK ValidAccepted DamageExact NestShape AdvDeclared PresizeLemma Export
