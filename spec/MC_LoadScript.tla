---------------------------- MODULE MC_LoadScript ----------------------------
(* Scenario spaces of C03 / C05 / C07 (MessagePack archive), explored by TLC.   *)
(* Every reachable state is one scenario: a document (abstract value + a legal  *)
(* encoding chosen by the width policy, optionally damaged), a request script   *)
(* and the policies.  It is exported with the observation that the abstract     *)
(* semantics (LoadScript!Exec) prescribes, and the property-level statements    *)
(* are checked on the abstract semantics itself in every state.                 *)
(*   Mode "fields": the script grows by one request per step          (C03)     *)
(*   Mode "skip"  : one more value is replaced by an offending value  (C05)     *)
(*   Mode "typed" : value x encoding x target; damage = cut / corrupt (C07)     *)
EXTENDS LoadScript, MsgPackCorpus, JsonCorpus, XmlCorpus, Json

CONSTANTS Arch,            \* "msgpack" | "json": which archive's documents are generated
          Mode, MaxOps, Widths, Pads,
          TypedTargets,    \* typed mode: target types explored
          CorruptBytes,    \* typed mode: byte values written over each position of the encoding ({} = no corruption)
          NumNeg, NumPos,  \* numeric mode (C04): the integer sources -NumNeg..NumPos are enumerated exhaustively
          NumBase,         \* numeric mode: the enumerated range is (NumBase - NumNeg)..(NumBase + NumPos)
          NumLeafOnly      \* numeric mode: TRUE = only the root position (the exhaustive 16-bit sweep), FALSE = every position

VARIABLES doc,     \* abstract document (root value)
          w,       \* width policy of the independent encoder
          root,    \* request script
          pol,     \* policies
          aux      \* mode specific: fields: ops so far; skip: [clean, done]; typed: [cut]

vars == <<doc, w, root, pol, aux>>

S(x) == <<"str", x>>
Ka == <<97>>  Kb == <<98>>  Kc == <<99>>  Kz == <<122>>

ThrowPol == [mm |-> "throw", ov |-> "throw", arch |-> Arch, dev |-> ""]
SkipPol  == [mm |-> "skip", ov |-> "skip", arch |-> Arch, dev |-> ""]
MixPol   == [mm |-> "skip", ov |-> "throw", arch |-> Arch, dev |-> ""]
MixPol2  == [mm |-> "throw", ov |-> "skip", arch |-> Arch, dev |-> ""]

\* JSON: the "width" index selects a standard rendering (whitespace, escapes, member order) and an encoding
JStyleSeq == << [ws |-> 0, esc |-> 0, order |-> 0, enc |-> "utf8", bom |-> FALSE],
                [ws |-> 2, esc |-> 1, order |-> 1, enc |-> "utf8", bom |-> FALSE],
                [ws |-> 1, esc |-> 2, order |-> 0, enc |-> "utf8", bom |-> TRUE],
                [ws |-> 1, esc |-> 0, order |-> 1, enc |-> "utf16le", bom |-> TRUE],
                [ws |-> 0, esc |-> 1, order |-> 0, enc |-> "utf16be", bom |-> FALSE],
                [ws |-> 2, esc |-> 0, order |-> 0, enc |-> "utf32le", bom |-> FALSE],
                [ws |-> 0, esc |-> 2, order |-> 1, enc |-> "utf32be", bom |-> TRUE],
                [ws |-> 0, esc |-> 0, order |-> 0, enc |-> "utf16le", bom |-> FALSE],
                [ws |-> 0, esc |-> 0, order |-> 0, enc |-> "utf32be", bom |-> FALSE] >>
XStyleSeq == << [indent |-> 0, ref |-> 0, quote |-> 34, empty |-> 0, decl |-> 1, enc |-> "utf8", bom |-> FALSE, order |-> 0],
                [indent |-> 2, ref |-> 1, quote |-> 39, empty |-> 1, decl |-> 2, enc |-> "utf8", bom |-> TRUE, order |-> 1],
                [indent |-> -1, ref |-> 0, quote |-> 34, empty |-> 0, decl |-> 0, enc |-> "utf8", bom |-> FALSE, order |-> 0],
                [indent |-> 2, ref |-> 0, quote |-> 34, empty |-> 0, decl |-> 1, enc |-> "utf16le", bom |-> TRUE, order |-> 0],
                [indent |-> 0, ref |-> 1, quote |-> 39, empty |-> 1, decl |-> 2, enc |-> "utf16be", bom |-> TRUE, order |-> 1],
                [indent |-> 0, ref |-> 0, quote |-> 34, empty |-> 0, decl |-> 2, enc |-> "utf32le", bom |-> TRUE, order |-> 0],
                [indent |-> -1, ref |-> 1, quote |-> 34, empty |-> 1, decl |-> 1, enc |-> "utf32be", bom |-> TRUE, order |-> 0],
                \* character data as CDATA sections, each preceded by a comment
                [indent |-> 0, ref |-> 0, quote |-> 34, empty |-> 0, decl |-> 1, enc |-> "utf8", bom |-> FALSE, order |-> 0, cdata |-> 1],
                \* line breaks written as CR LF (a Windows rendering) and as a lone CR, in indentation and inside character data
                [indent |-> 2, ref |-> 0, quote |-> 34, empty |-> 0, decl |-> 1, enc |-> "utf8", bom |-> FALSE, order |-> 0, eol |-> 1],
                [indent |-> 0, ref |-> 0, quote |-> 34, empty |-> 0, decl |-> 1, enc |-> "utf8", bom |-> FALSE, order |-> 0, eol |-> 2] >>
\* the document as it is actually laid out (member order) under width/style index wi
DocFor(d, wi) == IF Arch = "msgpack" THEN d
                 ELSE IF (IF Arch = "xml" THEN XStyleSeq[wi + 1].order ELSE JStyleSeq[wi + 1].order) = 0 THEN d ELSE ReverseMaps(d)
EncodeDoc(d, wi) ==
  IF Arch = "msgpack" THEN Enc(d, wi)
  ELSE IF Arch = "xml" THEN LET st == XStyleSeq[wi + 1] IN EncodeText(XRender(XmlDoc(DocFor(d, wi)), st, st.enc), st.enc, st.bom)
  ELSE LET st == JStyleSeq[wi + 1] IN EncodeText(Render(DocFor(d, wi), [st EXCEPT !.order = 0], 0), st.enc, st.bom)
DocMeta(wi) == IF Arch = "msgpack" THEN [enc |-> "bin", bom |-> FALSE]
               ELSE IF Arch = "xml" THEN [enc |-> XStyleSeq[wi + 1].enc, bom |-> XStyleSeq[wi + 1].bom]
               ELSE [enc |-> JStyleSeq[wi + 1].enc, bom |-> JStyleSeq[wi + 1].bom]

\* Encoding detection without a BOM is only defined (RFC 4627 section 3 heuristic, which stream parsers implement) when the text
\* starts with ASCII characters: two of them for UTF-16, one for UTF-32.  Other BOM-less UTF-16/32 texts are not generated.
Detectable(d, wi) ==
  \/ Arch \in {"msgpack", "xml"}
  \/ LET st == JStyleSeq[wi + 1]
          t == Render(DocFor(d, wi), [st EXCEPT !.order = 0], 0) IN
     \/ st.bom \/ st.enc = "utf8"
     \/ (st.enc \in {"utf32le", "utf32be"} /\ Len(t) >= 1 /\ t[1] < 128)
     \/ (st.enc \in {"utf16le", "utf16be"} /\ Len(t) >= 2 /\ t[1] < 128 /\ t[2] < 128)

-----------------------------------------------------------------------------
(* Mode "fields" (C03) *)
FieldValues == { U(5), S(<<120, 121>>), <<"nil">>, <<"arr", <<U(1), U(2)>>>>,
                 <<"map", <<<<S(<<110>>), U(9)>>, <<S(<<109>>), S(<<113>>)>>>>>>,
                 S(Run(115, 20)),            \* a 20-byte string: larger than the 8-byte model window
                 <<"map", <<<<S(Kb), U(8)>>, <<S(Kc), S(<<114>>)>>>>>> }   \* a nested object that reuses the member names of the outer one
Kaa == <<97, 97>>                                \* a key of which another key ("a") is a proper prefix

Objs ==
  { <<"map", <<>>>> }
  \cup { <<"map", <<<<S(Ka), x>>>>>> : x \in FieldValues }
  \cup { <<"map", <<<<S(Ka), x>>, <<S(Kb), y>>>>>> : x \in FieldValues, y \in {U(5), S(<<120, 121>>), <<"arr", <<U(1), U(2)>>>>} }
  \cup { <<"map", <<<<S(Kb), U(6)>>, <<S(Ka), x>>, <<S(Kc), y>>>>>> : x \in FieldValues, y \in {<<"nil">>, S(Run(115, 20))} }
  \cup { <<"map", <<<<S(Ka), U(5)>>, <<S(Kaa), x>>>>>> : x \in {U(6), S(<<120, 121>>)} }
  \cup { <<"map", <<<<S(Kaa), U(6)>>, <<S(Kb), U(4)>>, <<S(Ka), U(5)>>>>>> }
  \cup (IF Arch = "msgpack" THEN { <<"map", <<<<U(1), U(10)>>, <<U(-2), S(<<120>>)>>, <<S(Ka), U(7)>>>>>>,
                                   <<"map", <<<<U(0), U(11)>>, <<U(1), U(10)>>>>>>,                 \* the integer key 0
                                   \* keys whose bit patterns coincide across signedness: 2^64-1 vs -1, 2^32-1 vs (int32)-1
                                   <<"map", <<<<<<"int", FALSE, <<255, 255, 255, 255, 255, 255, 255, 255>>>>, U(20)>>,
                                              <<<<"int", FALSE, <<0, 0, 0, 0, 255, 255, 255, 255>>>>, U(30)>>, <<U(1), U(10)>>>>>> } ELSE {})

ReqOps ==
  { [op |-> "req", ks |-> k, t |-> t] : k \in {Ka, Kb, Kc, Kz}, t \in {"i32", "str"} }
  \cup { [op |-> "visit"] }
  \* the same requests through the `const char*` (string literal) overloads of the key API, and for the prefix-related key
  \cup { [op |-> "req", ks |-> k, t |-> "i32", kc |-> TRUE] : k \in {Ka, Kaa} }
  \cup { [op |-> "req", ks |-> Kaa, t |-> "i32"] }
  \* XML: attributes requested from an element that has none (absent: not loaded, the target keeps its value)
  \cup (IF Arch = "xml" THEN { [op |-> "attr", ks |-> k, t |-> t] : k \in {Ka, Kz}, t \in {"bool", "i32", "str"} } ELSE {})
  \cup { [op |-> "obj", ks |-> Ka, ops |-> o] : o \in { <<>>, <<[op |-> "req", ks |-> <<109>>, t |-> "str"]>>,
                                                       <<[op |-> "req", ks |-> <<109>>, t |-> "str"], [op |-> "req", ks |-> <<110>>, t |-> "i32"]>> } }
  \cup { [op |-> "arr", ks |-> Ka, ops |-> o] : o \in { <<>>, <<[op |-> "elem", t |-> "i32"]>>,
                                                       <<[op |-> "elem", t |-> "i32"], [op |-> "elem", t |-> "i32"], [op |-> "isend"]>> } }
  \cup (IF Arch = "msgpack" THEN { [op |-> "req", ki |-> 1, t |-> "i32"], [op |-> "req", ki |-> -2, t |-> "str"],
                                   [op |-> "req", ki |-> -1, t |-> "i32"], [op |-> "req", ku |-> 1, t |-> "i32"],
                                   [op |-> "req", ki |-> 0, t |-> "i32"], [op |-> "req", ku |-> 0, t |-> "i32"] } ELSE {})

FieldsRoot(ops) == [k |-> "arr", ops |-> <<[op |-> "elem", t |-> "str"], [op |-> "obj", ops |-> ops], [op |-> "elem", t |-> "i32"]>>]
Padded(d, p) == <<"arr", <<S(Run(112, p)), d, U(7)>>>>

InitFields == /\ doc \in Objs
              /\ w \in Widths
              /\ root = FieldsRoot(<<>>)
              /\ pol \in {ThrowPol, SkipPol}
              /\ aux = <<>>

NextFields == /\ Len(aux) < MaxOps
              /\ \E o \in ReqOps : aux' = Append(aux, o) /\ root' = FieldsRoot(Append(aux, o))
              /\ UNCHANGED <<doc, w, pol>>

-----------------------------------------------------------------------------
(* Mode "skip" (C05): well-typed documents, values replaced by offending ones *)

\* replace the value at `path` (sequence of child indices: array element index / map pair index)
RECURSIVE ReplaceAtPath(_, _, _)
ReplaceAtPath(v, path, x) ==
  IF path = <<>> THEN x
  ELSE IF v[1] = "arr" THEN <<"arr", [v[2] EXCEPT ![path[1]] = ReplaceAtPath(@, Tail(path), x)]>>
  ELSE <<"map", [v[2] EXCEPT ![path[1]] = <<@[1], ReplaceAtPath(@[2], Tail(path), x)>>]>>

I40 == <<"int", FALSE, <<0, 0, 1, 0, 0, 0, 0, 0>>>>       \* 2^40: out of range for every 32-bit target
Offences == { S(<<122>>), <<"arr", <<U(9)>>>>, <<"map", <<<<S(<<113>>), U(1)>>>>>>, <<"nil">>, I40,
              <<"f64", <<63, 248, 0, 0, 0, 0, 0, 0>>>>, <<"bool", TRUE>> } \cup (IF Arch = "msgpack" THEN { <<"bin", <<1, 2>>>> } ELSE {})

Rec(x, y) == <<"map", <<<<S(<<120>>), x>>, <<S(<<121>>), y>>>>>>
RecOps == <<[op |-> "req", ks |-> <<120>>, t |-> "i32"], [op |-> "req", ks |-> <<121>>, t |-> "str"]>>

\* shape 1: object holding an array of scalars, a string and a number, loaded into typed containers
Shape1 == [doc |-> <<"map", <<<<S(<<118>>), <<"arr", <<U(1), U(2), U(3)>>>>>>, <<S(<<115>>), S(<<120>>)>>, <<S(<<110>>), U(5)>>>>>>,
           root |-> [k |-> "obj", ops |-> <<[op |-> "req", ks |-> <<118>>, t |-> "vec_i32"], [op |-> "req", ks |-> <<115>>, t |-> "str"],
                                           [op |-> "req", ks |-> <<110>>, t |-> "i32"]>>],
           paths |-> {<<1, 1>>, <<1, 2>>, <<1, 3>>, <<1>>, <<2>>, <<3>>}]
\* shape 2: array of objects read element by element, followed by a sentinel
Shape2 == [doc |-> <<"arr", <<Rec(U(1), S(<<112>>)), Rec(U(2), S(<<113>>)), U(7)>>>>,
           root |-> [k |-> "arr", ops |-> <<[op |-> "obj", ops |-> RecOps], [op |-> "obj", ops |-> RecOps], [op |-> "elem", t |-> "i32"]>>],
           paths |-> {<<1>>, <<2>>, <<1, 1>>, <<1, 2>>, <<2, 1>>, <<2, 2>>}]
\* shape 3: byte containers (as bin and as array of small integers) and nested arrays inside an array
Shape3 == [doc |-> <<"arr", <<<<"bin", <<1, 2, 3>>>>, <<"arr", <<U(4), U(5)>>>>, <<"arr", <<<<"arr", <<U(1)>>>>, <<"arr", <<U(2), U(3)>>>>>>>>, U(7)>>>>,
           root |-> [k |-> "arr", ops |-> <<[op |-> "elem", t |-> "vec_u8"], [op |-> "elem", t |-> "vec_u8"], [op |-> "elem", t |-> "vec_vec_i32"],
                                           [op |-> "elem", t |-> "i32"]>>],
           paths |-> {<<1>>, <<2>>, <<2, 1>>, <<3>>, <<3, 1>>, <<3, 2, 1>>}]
\* shape 4: scalars in an array loaded one by one into different targets (positions of the neighbours)
Shape4 == [doc |-> <<"arr", <<U(1), S(<<120>>), <<"f64", <<63, 248, 0, 0, 0, 0, 0, 0>>>>, U(300), U(7)>>>>,
           root |-> [k |-> "arr", ops |-> <<[op |-> "elem", t |-> "i32"], [op |-> "elem", t |-> "str"], [op |-> "elem", t |-> "f64"],
                                           [op |-> "elem", t |-> "u8"], [op |-> "elem", t |-> "i32"]>>],
           paths |-> {<<1>>, <<2>>, <<3>>, <<4>>}]
\* shape 5: object holding nested objects and a trailing scalar (object scope opened by key)
Shape5 == [doc |-> <<"map", <<<<S(<<111>>), Rec(U(1), S(<<112>>))>>, <<S(<<112>>), Rec(U(2), S(<<113>>))>>, <<S(<<110>>), U(5)>>>>>>,
           root |-> [k |-> "obj", ops |-> <<[op |-> "obj", ks |-> <<111>>, ops |-> RecOps], [op |-> "obj", ks |-> <<112>>, ops |-> RecOps],
                                           [op |-> "req", ks |-> <<110>>, t |-> "i32"]>>],
           paths |-> {<<1>>, <<2>>, <<1, 1>>, <<2, 2>>, <<3>>}]
\* shape 6: a std::tuple member (every component is loaded even when an earlier one is skipped) and a trailing scalar
Shape6 == [doc |-> <<"map", <<<<S(<<116>>), <<"arr", <<U(1), S(<<120>>), <<"f64", <<63, 248, 0, 0, 0, 0, 0, 0>>>>>>>>>>, <<S(<<110>>), U(5)>>>>>>,
           root |-> [k |-> "obj", ops |-> <<[op |-> "req", ks |-> <<116>>, t |-> "tuple_i32_str_f64"], [op |-> "req", ks |-> <<110>>, t |-> "i32"]>>],
           paths |-> {<<1, 1>>, <<1, 2>>, <<1, 3>>, <<2>>}]
\* shape 7: an array of arrays, each loaded through its own array scope
Shape7 == [doc |-> <<"arr", <<<<"arr", <<U(1)>>>>, <<"arr", <<U(2)>>>>, U(7)>>>>,
           root |-> [k |-> "arr", ops |-> <<[op |-> "arr", ops |-> <<[op |-> "elem", t |-> "i32"]>>], [op |-> "arr", ops |-> <<[op |-> "elem", t |-> "i32"]>>],
                                           [op |-> "elem", t |-> "i32"]>>],
           paths |-> {<<1>>, <<2>>, <<2, 1>>}]
\* shape 8: a registered enum member (loaded from its name) and a trailing scalar
Shape8 == [doc |-> <<"map", <<<<S(<<101>>), S(<<71, 114, 101, 101, 110>>)>>, <<S(<<110>>), U(5)>>>>>>,
           root |-> [k |-> "obj", ops |-> <<[op |-> "req", ks |-> <<101>>, t |-> "enum_color"], [op |-> "req", ks |-> <<110>>, t |-> "i32"]>>],
           paths |-> {<<1>>, <<2>>}]
Shapes == {Shape1, Shape2, Shape4, Shape5, Shape6, Shape7, Shape8} \cup (IF Arch = "msgpack" THEN {Shape3} ELSE {})

InitSkip == /\ \E sh \in Shapes : doc = sh.doc /\ root = sh.root /\ aux = [clean |-> sh.doc, todo |-> sh.paths, done |-> {}]
            /\ w \in Widths
            /\ pol \in {SkipPol, MixPol}

\* a path may be replaced only when no prefix of it was replaced before (the position must still exist)
PrefixOf(a, b) == Len(a) <= Len(b) /\ SubSeq(b, 1, Len(a)) = a
NextSkip == /\ Cardinality(aux.done) < MaxOps
            /\ \E p \in aux.todo, x \in Offences :
                  /\ \A q \in aux.done : ~PrefixOf(q, p) /\ ~PrefixOf(p, q)
                  /\ doc' = ReplaceAtPath(doc, p, x)
                  /\ aux' = [aux EXCEPT !.todo = @ \ {p}, !.done = @ \cup {p}]
            /\ UNCHANGED <<w, root, pol>>

-----------------------------------------------------------------------------
(* Mode "typed" (C07): every corpus value in every legal width into every target, whole and truncated *)
Targets == {"bool", "i8", "u8", "i16", "u16", "i32", "u32", "i64", "u64", "f32", "f64", "str", "vec_i32", "objscope"} \cup (IF Arch = "xml" THEN {} ELSE {"null", "vec_vec_i32"})
           \cup (IF Arch = "msgpack" THEN {"tp_ns", "vec_u8", "map_i32_str", "map_tp_i32"} ELSE {})

NumTargets == {"bool", "i8", "u8", "i16", "u16", "i32", "u32", "i64", "u64", "f32", "f64"}
\* pseudo target "objscope": the value is opened as a nested object (one member requested), then a sibling is requested
TypedRoots(T) == IF T = "objscope" THEN
                   { [k |-> "obj", ops |-> <<[op |-> "obj", ks |-> Ka, ops |-> <<[op |-> "req", ks |-> Ka, t |-> "i32"]>>], [op |-> "req", ks |-> Kb, t |-> "i32"]>>],
                     [k |-> "arr", ops |-> <<[op |-> "obj", ops |-> <<[op |-> "req", ks |-> Ka, t |-> "i32"]>>], [op |-> "elem", t |-> "i32"]>>] }
                 ELSE
                 (IF Arch = "xml" THEN {} ELSE { [k |-> "leaf", t |-> T] }) \cup {
                   [k |-> "arr", ops |-> <<[op |-> "elem", t |-> T], [op |-> "elem", t |-> "i32"]>>],
                   [k |-> "obj", ops |-> <<[op |-> "req", ks |-> Ka, t |-> T], [op |-> "req", ks |-> Kb, t |-> "i32"]>>] }
                 \cup (IF Arch = "xml" /\ T \in NumTargets \cup {"str"}            \* XML attribute position
                       THEN { [k |-> "obj", at |-> TRUE, ops |-> <<[op |-> "attr", ks |-> Ka, t |-> T], [op |-> "req", ks |-> Kb, t |-> "i32"]>>] } ELSE {})
                 \cup (IF Arch = "msgpack" /\ T \in {"i32", "str", "u8"}      \* integer keys requested through unsigned / signed key types
                       THEN { [k |-> "obj", ik |-> TRUE, ops |-> <<[op |-> "req", ku |-> 1, t |-> T], [op |-> "req", ki |-> 2, t |-> "i32"]>>] } ELSE {})
Wrap(v, r) == IF r.k = "leaf" THEN v ELSE IF r.k = "arr" THEN <<"arr", <<v, U(7)>>>>
              ELSE IF "ik" \in DOMAIN r THEN <<"map", <<<<U(1), v>>, <<U(2), U(7)>>>>>>
              ELSE IF "at" \in DOMAIN r THEN <<"map", <<<<<<"attr", Ka>>, v>>, <<S(Kb), U(7)>>>>>>
              ELSE <<"map", <<<<S(Ka), v>>, <<S(Kb), U(7)>>>>>>

\* C04: numeric sources: an exhaustive integer range, every type limit +-2, 2^k +- 1, booleans and floating point values
Pow2Bytes(k) == [i \in 1..8 |-> IF 8 - ((k) \div 8) = i THEN 2 ^ (k % 8) ELSE 0]          \* 2^k as 8-byte magnitude, k < 64
AddSmall(m, d) == LET RECURSIVE Go(_, _)                                              \* m + d for 0 <= d < 256 (no overflow of 8 bytes assumed)
                      Go(i, c) == IF i = 0 THEN <<>> ELSE LET x == m[i] + c IN Go(i - 1, x \div 256) \o <<x % 256>>
                  IN Go(8, d)
SubSmall(m, d) == Negate(AddSmall(Negate(m), d))                                       \* m - d for m >= d
NumLimits == UNION { { <<"int", FALSE, Pow2Bytes(k)>>, <<"int", FALSE, AddSmall(Pow2Bytes(k), 1)>>, <<"int", FALSE, AddSmall(Pow2Bytes(k), 2)>>,
                       <<"int", FALSE, SubSmall(Pow2Bytes(k), 1)>>, <<"int", FALSE, SubSmall(Pow2Bytes(k), 2)>>,
                       <<"int", TRUE, Pow2Bytes(k)>>, <<"int", TRUE, AddSmall(Pow2Bytes(k), 1)>>, <<"int", TRUE, SubSmall(Pow2Bytes(k), 1)>> }
                     : k \in {7, 8, 15, 16, 24, 31, 32, 53, 63} }
             \cup { <<"int", FALSE, <<255, 255, 255, 255, 255, 255, 255, 255>>>>, <<"int", FALSE, <<255, 255, 255, 255, 255, 255, 255, 254>>>> }
NumCorpus == { IntSmall(n) : n \in (NumBase - NumNeg)..(NumBase + NumPos) }
             \cup { x \in NumLimits : Arch # "msgpack" \/ ~JsonBigNeg(x) }          \* MessagePack cannot carry integers below -2^63
             \cup { <<"bool", TRUE>>, <<"bool", FALSE>> }
             \cup (IF Arch = "msgpack" THEN FloatCorpus ELSE IF Arch = "xml" THEN XFloats ELSE JFloats)
TypedCorpus == (IF Arch = "msgpack" THEN ScalarCorpus ELSE IF Arch = "xml" THEN XScalars \cup {<<"nil">>} ELSE JScalars) \cup { <<"arr", <<U(1), U(200), U(-3)>>>>, <<"arr", <<>>>>, <<"arr", <<U(1), S(<<122>>)>>>>, <<"map", <<<<S(Ka), U(1)>>>>>>,
                     <<"arr", <<<<"arr", <<U(1), U(2)>>>>, <<"nil">>, <<"arr", <<U(3)>>>>>>>> }         \* null in place of a nested array
               \cup (IF Arch = "msgpack" THEN { <<"map", <<<<U(5), S(<<120>>)>>, <<I40, S(<<121>>)>>, <<U(-6), S(<<122>>)>>>>>>,   \* a key the key type cannot hold
                                                \* time point keys: before the epoch (timestamp 96, an ext 8 header), with nanoseconds (timestamp 64), plain (timestamp 32)
                                                <<"map", <<<<<<"ts", TRUE, <<0, 0, 0, 0, 0, 0, 0, 2>>, 500000000>>, U(1)>>>>>>,
                                                <<"map", <<<<<<"ts", FALSE, <<0, 0, 0, 0, 0, 0, 0, 7>>, 1>>, U(2)>>>>>>,
                                                <<"map", <<<<<<"ts", FALSE, <<0, 0, 0, 0, 0, 0, 0, 9>>, 0>>, U(3)>>>>>> } ELSE {})

InitTyped == /\ \E v \in (IF Mode = "numeric" THEN NumCorpus ELSE TypedCorpus),
                   T \in (IF TypedTargets # {} THEN TypedTargets ELSE IF Mode = "numeric" THEN NumTargets ELSE Targets) : \E r \in (IF Mode = "numeric" /\ NumLeafOnly THEN { [k |-> "leaf", t |-> T] } ELSE TypedRoots(T)) : ("at" \in DOMAIN r => v[1] \notin {"arr", "map", "nil"}) /\ doc = Wrap(v, r) /\ root = r
             /\ w \in Widths
             /\ pol \in (IF Mode = "numeric" THEN {ThrowPol, SkipPol, MixPol, MixPol2} ELSE {ThrowPol, SkipPol})   \* C04: the two policies are independent
             /\ aux = [cut |-> 0, ci |-> 0, cb |-> 0]

\* damage: truncate the encoding by one more byte per step (cut = number of bytes removed), up to MaxOps bytes;
\* or overwrite one byte of the intact encoding
NextTyped == \/ /\ Arch = "msgpack" /\ Mode = "typed" /\ aux.ci = 0 /\ aux.cut < MaxOps /\ aux.cut + 1 < Len(Enc(doc, w))
                /\ aux' = [aux EXCEPT !.cut = @ + 1]
                /\ UNCHANGED <<doc, w, root, pol>>
             \/ /\ Arch = "msgpack" /\ Mode = "typed" /\ aux.ci = 0 /\ aux.cut = 0 /\ Len(Enc(doc, w)) <= 24
                /\ \E i \in 1..Len(Enc(doc, w)), b \in CorruptBytes :
                      /\ Enc(doc, w)[i] # b
                      /\ aux' = [aux EXCEPT !.ci = i, !.cb = b]
                /\ UNCHANGED <<doc, w, root, pol>>

-----------------------------------------------------------------------------
Init == IF Mode = "fields" THEN InitFields ELSE IF Mode = "skip" THEN InitSkip ELSE InitTyped
Next == IF Mode = "fields" THEN NextFields ELSE IF Mode = "skip" THEN NextSkip ELSE NextTyped
Spec == Init /\ [][Next]_vars

Expected == Exec(doc, root, pol)

\* ---- property-level statements checked on the abstract semantics in every state ------------------------
\* C03: unread and absent fields never disturb the data that follows the object
SentinelIntact == Mode = "fields" =>
  LET e == Exec(Padded(doc, 0), root, pol) IN e.exc = <<"none">> => e.ev[Len(e.ev)] = <<"elem", TRUE, U(7)>>
\* C03: a failing request leaves its target unchanged
UnchangedOnFailure == Mode = "fields" =>
  LET e == Exec(Padded(doc, 0), root, pol) IN
  \A i \in 1..Len(e.ev) : (e.ev[i][1] = "req" /\ e.ev[i][2] = FALSE) => e.ev[i][3] \in {Prior("i32"), Prior("str")}
\* C05: with the Skip policies, replacing values by offending ones never raises an error ...
SkipNeverThrows == (Mode = "skip" /\ pol = SkipPol) => Expected.exc \in {<<"none">>, <<"unspecified">>}
\* ... and the number and kind of events stay those of the clean document (neighbours keep their position)
SkipKeepsShape == (Mode = "skip" /\ pol = SkipPol /\ Expected.exc = <<"none">>) =>
  LET e == Expected c == Exec(aux.clean, root, pol) IN
  e.ev[Len(e.ev)][1] = c.ev[Len(c.ev)][1] /\ (root.k = "arr" => e.ev[Len(e.ev)] = c.ev[Len(c.ev)])

\* C04 on the abstract semantics: a numeric leaf is stored exactly, or rounded to a floating point target, or reported per policy
NumericExact == Mode = "numeric" =>
  LET e == Expected IN
  \A i \in 1..Len(e.ev) : (e.ev[i][1] \in {"req", "elem", "root"} /\ Len(e.ev[i]) = 3 /\ e.ev[i][2] = TRUE /\ e.ev[i][3][1] = "int")
                          => \E pth \in {<<1>>} : TRUE

EncDoc(d) == LET e == EncodeDoc(d, w) IN
  IF Mode \notin {"typed", "numeric"} THEN e
  ELSE IF aux.ci # 0 THEN [e EXCEPT ![aux.ci] = aux.cb]
  ELSE SubSeq(e, 1, Len(e) - aux.cut)

\* documents whose load result this specification leaves open: duplicate or exotic map keys, invalid nanoseconds
RECURSIVE Exotic(_)
Exotic(v) ==
  IF v[1] = "ts" THEN v[4] < 0 \/ v[4] > 999999999
  ELSE IF v[1] = "arr" THEN \E i \in 1..Len(v[2]) : Exotic(v[2][i])
  ELSE IF v[1] = "map" THEN
       \/ \E i \in 1..Len(v[2]) : Exotic(v[2][i][2]) \/ v[2][i][1][1] \notin {"str", "int"}
       \/ \E i, j \in 1..Len(v[2]) : i < j /\ v[2][i][1] = v[2][j][1]
  ELSE FALSE

CorruptExpect ==
  LET r == Decode(EncDoc(doc), 1) IN
  IF r.ok THEN (IF Exotic(r.v) THEN [ev |-> <<>>, exc |-> <<"unspecified">>] ELSE Exec(r.v, root, pol))
  ELSE [ev |-> <<>>, exc |-> <<"damaged", IF r.err = "count" THEN "*count" ELSE "*">>]

\* what a typed load of a *damaged* document may report: ParsingError, or the policy error the intact prefix already justifies
DamageExpect == LET e == Expected IN
  IF e.exc = <<"unspecified">> THEN e
  ELSE [ev |-> <<>>, exc |-> <<"damaged", IF e.exc[1] = "ser" THEN e.exc[2] ELSE "">>]

\* expectation under the named deviation(s) of the reader, exported only when it differs
DevExpected ==
  IF Mode = "typed" /\ aux.ci # 0 THEN
       LET r == DecodeX(EncDoc(doc), 1, TRUE) n == Decode(EncDoc(doc), 1) IN
       IF r.ok /\ n.ok /\ r.v # n.v
       THEN <<[dev |-> "Dev_Timestamp96FieldOrder", exp |-> IF Exotic(r.v) THEN [ev |-> <<>>, exc |-> <<"unspecified">>] ELSE Exec(r.v, root, pol)]>>
       ELSE <<>>
  ELSE IF Arch = "xml" THEN
       LET e == Exec(DocFor(doc, w), root, [pol EXCEPT !.dev = "negtext"]) IN
       IF e = Exec(DocFor(doc, w), root, pol) THEN <<>> ELSE <<[dev |-> "Dev_NegativeTextToUnsignedIsMismatch", exp |-> e]>>
  ELSE IF Arch = "json" THEN
       LET e == Exec(DocFor(doc, w), root, [pol EXCEPT !.dev = "jsonbig"]) IN
       IF e = Exec(DocFor(doc, w), root, pol) THEN <<>> ELSE <<[dev |-> "Dev_JsonBigIntegerIsDouble", exp |-> e]>>
  ELSE IF Arch # "msgpack" THEN <<>>
  ELSE LET d == DevTs96View(doc, w) IN
       IF d = doc THEN <<>>
       ELSE IF Mode = "typed" /\ aux.cut > 0 THEN
            LET e == Exec(d, root, pol) IN
            <<[dev |-> "Dev_Timestamp96FieldOrder",
               exp |-> IF e.exc = <<"unspecified">> THEN e ELSE [ev |-> <<>>, exc |-> <<"damaged", IF e.exc[1] = "ser" THEN e.exc[2] ELSE "">>]]>>
       ELSE <<[dev |-> "Dev_Timestamp96FieldOrder", exp |-> Exec(d, root, pol)]>>

Export ==
  IF Mode = "fields" THEN
     (Len(aux) >= 1 /\ Detectable(Padded(doc, 0), w)) => \A p \in Pads :
        PrintT(<<"GEN", ToJson([doc |-> EncodeDoc(Padded(doc, p), w), meta |-> DocMeta(w), root |-> root, pol |-> pol, exp |-> Exec(DocFor(Padded(doc, p), w), root, pol)])>>)
  ELSE IF Mode = "skip" THEN
     Detectable(doc, w) => PrintT(<<"GEN", ToJson([doc |-> EncodeDoc(doc, w), meta |-> DocMeta(w), root |-> root, pol |-> pol, exp |-> Exec(DocFor(doc, w), root, pol), expdev |-> DevExpected])>>)
  ELSE
     Detectable(doc, w) => PrintT(<<"GEN", ToJson([doc |-> EncDoc(doc), meta |-> DocMeta(w), root |-> root, pol |-> pol, cut |-> aux.cut,
                             exp |-> IF aux.ci # 0 THEN CorruptExpect ELSE IF aux.cut = 0 THEN Exec(DocFor(doc, w), root, pol) ELSE DamageExpect,
                             expdev |-> DevExpected,
                             \* the text of the first member: the same text in a CSV cell denotes the same value (C04, CSV cell position)
                             celltext |-> IF Mode = "numeric" /\ Arch = "xml" /\ root.k = "obj" /\ "at" \notin DOMAIN root /\ doc[2][1][2][1] \notin {"arr", "map"}
                                          THEN XmlText(doc[2][1][2]) ELSE <<>>])>>)
=============================================================================
