---------------------------- MODULE MC_LoadScript ----------------------------
(* Scenario space of C03 / C05 / C07 for the MessagePack archive, explored by   *)
(* TLC: a document (abstract value + chosen legal encoding, optionally damaged) *)
(* and a request script that grows by one operation per step.  Every reachable  *)
(* state is one scenario; it is exported together with the observation the      *)
(* abstract semantics (LoadScript!Exec) prescribes.                             *)
EXTENDS LoadScript, MsgPackCorpus, Json

CONSTANTS Mode,        \* "fields" (C03) | "skip" (C05) | "typed" (C07)
          MaxOps,      \* length bound of request scripts
          Widths,      \* width policies of the independent encoder
          Pads         \* lengths of the filler string placed before the object (shifts it across window boundaries)

VARIABLES doc,     \* abstract document (root value)
          w,       \* width policy used to encode it
          ops,     \* request script built so far (sequence of op records; object-scope level)
          pol,     \* policies
          tcase    \* typed mode: [v, t]

vars == <<doc, w, ops, pol, tcase>>

S(x) == <<"str", x>>
Ka == <<97>>  Kb == <<98>>  Kc == <<99>>  Kz == <<122>>

ThrowPol == [mm |-> "throw", ov |-> "throw"]
SkipPol  == [mm |-> "skip", ov |-> "skip"]

\* ---- C03 documents: objects with up to 3 distinct keys, followed by a sentinel --------------------------
FieldValues == { U(5), S(<<120, 121>>), <<"nil">>, <<"arr", <<U(1), U(2)>>>>,
                 <<"map", <<<<S(<<110>>), U(9)>>, <<S(<<109>>), S(<<113>>)>>>>>>,
                 S(Run(115, 20)) }           \* a 20-byte string: larger than the 8-byte model window

Objs ==
  { <<"map", <<>>>> }
  \cup { <<"map", <<<<S(Ka), x>>>>>> : x \in FieldValues }
  \cup { <<"map", <<<<S(Ka), x>>, <<S(Kb), y>>>>>> : x \in FieldValues, y \in {U(5), S(<<120, 121>>), <<"arr", <<U(1), U(2)>>>>} }
  \cup { <<"map", <<<<S(Kb), U(6)>>, <<S(Ka), x>>, <<S(Kc), y>>>>>> : x \in FieldValues, y \in {<<"nil">>, S(Run(115, 20))} }
  \cup { <<"map", <<<<U(1), U(10)>>, <<U(-2), S(<<120>>)>>, <<S(Ka), U(7)>>>>>> }

\* request alphabet at object level
ReqOps ==
  { [op |-> "req", ks |-> k, t |-> t] : k \in {Ka, Kb, Kc, Kz}, t \in {"i32", "str"} }
  \cup { [op |-> "visit"] }
  \cup { [op |-> "obj", ks |-> Ka, ops |-> o] : o \in { <<>>, <<[op |-> "req", ks |-> <<109>>, t |-> "str"]>>,
                                                       <<[op |-> "req", ks |-> <<109>>, t |-> "str"], [op |-> "req", ks |-> <<110>>, t |-> "i32"]>> } }
  \cup { [op |-> "arr", ks |-> Ka, ops |-> o] : o \in { <<>>, <<[op |-> "elem", t |-> "i32"]>>,
                                                       <<[op |-> "elem", t |-> "i32"], [op |-> "elem", t |-> "i32"], [op |-> "isend"]>> } }
  \cup { [op |-> "req", ki |-> 1, t |-> "i32"], [op |-> "req", ki |-> -2, t |-> "str"] }

Root == [k |-> "arr", ops |-> <<[op |-> "elem", t |-> "str"], [op |-> "obj", ops |-> ops], [op |-> "elem", t |-> "i32"]>>]
DocValueP(p) == <<"arr", <<S(Run(112, p)), doc, U(7)>>>>
DocValue == DocValueP(0)

Init == /\ Mode = "fields"
        /\ doc \in Objs
        /\ w \in Widths
        /\ ops = <<>>
        /\ pol \in {ThrowPol, SkipPol}
        /\ tcase = <<>>

Next == /\ Len(ops) < MaxOps
        /\ \E o \in ReqOps : ops' = Append(ops, o)
        /\ UNCHANGED <<doc, w, pol, tcase>>

Spec == Init /\ [][Next]_vars

Expected == Exec(DocValue, Root, pol)

\* A-level sanity of the abstract semantics itself (checked in every state):
\* unread and absent fields never disturb the sentinel: whenever the run completes, its last event is the sentinel 7
SentinelIntact == LET e == Expected IN
  e.exc = <<"none">> => e.ev[Len(e.ev)] = <<"elem", TRUE, U(7)>>
\* a failing request leaves its target unchanged
UnchangedOnFailure == LET e == Expected IN
  \A i \in 1..Len(e.ev) : (e.ev[i][1] = "req" /\ e.ev[i][2] = FALSE) => e.ev[i][3] \in {Prior("i32"), Prior("str")}

Export == Len(ops) >= 1 =>
  \A p \in Pads :
    PrintT(<<"GEN", ToJson([doc |-> Enc(DocValueP(p), w), pad |-> p, root |-> Root, pol |-> pol, exp |-> Exec(DocValueP(p), Root, pol)])>>)
=============================================================================
