------------------------------ MODULE Containers ------------------------------
(***************************************************************************)
(* Loading a document into a POPULATED target (property C18).               *)
(*                                                                          *)
(*  A  (ALoad)  what a load denotes: the final value is the value of the    *)
(*              document; it never depends on the prior content of a        *)
(*              container (sequence, set, Clean-mode map, multimap,         *)
(*              optional, smart pointer).  The two non-default map modes    *)
(*              merge as documented in generic_map.h: OnlyExistKeys loads   *)
(*              only into keys the map already has, UpdateKeys loads into   *)
(*              existing or new keys.                                       *)
(*  M  (MLoad)  step functions shaped like the code: SerializeContainer     *)
(*              (resize to the estimated size, overwrite the existing       *)
(*              elements, emplace_back the rest, final resize), the         *)
(*              forward_list variant with its resize(1) seed, valarray via  *)
(*              a temporary vector, adaptors through their base container,  *)
(*              fixed-size arrays / bitset / tuple, sets and multimaps      *)
(*              (clear, hinted insertion), maps in the three MapLoadModes,  *)
(*              optional / unique_ptr / shared_ptr (create, load, reset),   *)
(*              strings (assign).  Every leaf of an M value carries its     *)
(*              origin: "stale" (prior content), "loaded" (document),       *)
(*              "fresh" (value-initialised by the loader).                  *)
(*                                                                          *)
(* Where the pinned tree knowingly or unknowingly deviates from A, M has a  *)
(* NAMED DEVIATION with a precise guard; it is taken only when its name is  *)
(* in env.devs.  With env.devs = {} TLC checks M => A; with a deviation     *)
(* enabled TLC must find the counterexample that documents the finding.     *)
(*                                                                          *)
(* Doc trees   <<"i",n>> <<"big">> <<"s",str>> <<"b",bool>> <<"null">>      *)
(*             <<"absent">> <<"arr",items>> <<"obj",<<<<key,doc>>,..>>>>    *)
(* M values    <<"i",n,org>> <<"s",str,org>> <<"b",bool,org>> <<"none">>    *)
(*             <<"some",v>> <<"seq",vs>> <<"set",vs>> <<"map",<<<<k,v>>>>>> *)
(*             <<"mmap",..>> <<"rec",x,s,p>>     (k = key index 1..4)       *)
(* A values    the same without the origin field                            *)
(* Types       <<"i16">> <<"bool">> <<"str">> <<"atomic">> <<"rec">>        *)
(*             <<"opt",T>> <<"uptr",T>> <<"sptr",T>> <<"seq",kind,T>>       *)
(*             <<"fix",kind,n,T>> <<"tuple",<<T1,..>>>> <<"set",kind,T>>    *)
(*             <<"map",kind,V>> <<"mmap",kind,V>>                           *)
(***************************************************************************)
EXTENDS Naturals, Sequences, FiniteSets, TLC

Min(a, b) == IF a < b THEN a ELSE b
Max(a, b) == IF a > b THEN a ELSE b

KeyNames == <<"a", "b", "c", "d">>

-----------------------------------------------------------------------------
(* Named deviations of the pinned tree                                       *)

\* an element slot that already exists in a sequence container / fixed array / tuple is loaded IN PLACE, so whatever
\* the document does not load there (null, value skipped by policy, member missing or null, XML-empty string) keeps
\* the prior content.  Guard: slot index <= number of existing elements after the pre-sizing AND the in-place result
\* differs from loading into a value-initialised element.
DevReused == "Dev_ReusedElementKeepsUnloaded"
\* XML cannot distinguish an empty string from null: <v></v> is "not loaded".  Guard: archive = xml, string target,
\* document value = "".
DevXmlStr == "Dev_XmlEmptyStringNotLoaded"
\* XML: a non-root array/object node without child elements (empty container, or null) is reported through
\* MismatchedTypesPolicy.  Guard: archive = xml, target array/object not at the root, document null or empty.
DevXmlCont == "Dev_XmlNullOrEmptyContainerMismatch"
\* JSON: null for a string / array / object target is reported through MismatchedTypesPolicy (only fundamental
\* targets treat null as "not loaded").  Guard: archive = json, document null, target not fundamental.
DevJsonNull == "Dev_JsonNullNonFundamentalMismatch"
\* XML array scope: reading past the last element dereferences the end iterator (bitset / tuple longer than the data).
\* Guard: archive = xml, target bitset/tuple, fewer items than the target has.
DevXmlOver == "Dev_XmlArrayReadPastEnd"

AllDevs == {DevReused, DevXmlStr, DevXmlCont, DevJsonNull, DevXmlOver}

-----------------------------------------------------------------------------
(* Results of a step.  dv = names of the deviations that shaped the result (on an error: of the failing step);  *)
(* fv = every deviation whose guard was true anywhere during the step                                          *)
Ok(v, dv)        == [v |-> v, ok |-> TRUE, err |-> "", dv |-> dv, fv |-> dv]
NotLoaded(c, dv) == [v |-> c, ok |-> FALSE, err |-> "", dv |-> dv, fv |-> dv]
Err(code, dv)    == [v |-> <<"none">>, ok |-> FALSE, err |-> code, dv |-> dv, fv |-> dv]
Fv(r, fv)        == [r EXCEPT !.fv = fv \cup r.dv]

Mismatch == "Mismatched types"
OutOfRange == "Out of range"
Crash == "crash"

-----------------------------------------------------------------------------
(* Value-initialised / default-constructed value of a type (tagged "fresh")   *)
RECURSIVE Fresh(_)
Fresh(T) ==
  IF T[1] \in {"i16", "atomic"} THEN <<"i", 0, "fresh">>
  ELSE IF T[1] = "bool" THEN <<"b", FALSE, "fresh">>
  ELSE IF T[1] = "str" THEN <<"s", "", "fresh">>
  ELSE IF T[1] \in {"opt", "uptr", "sptr"} THEN <<"none">>
  ELSE IF T[1] = "seq" THEN <<"seq", <<>>>>
  ELSE IF T[1] = "fix" THEN <<"seq", [i \in 1..T[3] |-> Fresh(T[4])]>>
  ELSE IF T[1] = "tuple" THEN <<"seq", [i \in 1..Len(T[2]) |-> Fresh(T[2][i])]>>
  ELSE IF T[1] = "set" THEN <<"set", <<>>>>
  ELSE IF T[1] = "map" THEN <<"map", <<>>>>
  ELSE IF T[1] = "mmap" THEN <<"mmap", <<>>>>
  ELSE <<"rec", <<"i", 0, "fresh">>, <<"s", "", "fresh">>, <<"none">>>>

\* A value (no origins)
RECURSIVE Strip(_)
Strip(v) ==
  IF v[1] \in {"i", "s", "b"} THEN <<v[1], v[2]>>
  ELSE IF v[1] = "none" THEN v
  ELSE IF v[1] = "some" THEN <<"some", Strip(v[2])>>
  ELSE IF v[1] \in {"seq", "set"} THEN <<v[1], [i \in 1..Len(v[2]) |-> Strip(v[2][i])]>>
  ELSE IF v[1] \in {"map", "mmap"} THEN <<v[1], [i \in 1..Len(v[2]) |-> <<v[2][i][1], Strip(v[2][i][2])>>]>>
  ELSE <<"rec", Strip(v[2]), Strip(v[3]), Strip(v[4])>>

\* the same value with every leaf marked with origin o
RECURSIVE Mark(_, _)
Mark(v, o) ==
  IF v[1] \in {"i", "s", "b"} THEN <<v[1], v[2], o>>
  ELSE IF v[1] = "none" THEN v
  ELSE IF v[1] = "some" THEN <<"some", Mark(v[2], o)>>
  ELSE IF v[1] \in {"seq", "set"} THEN <<v[1], [i \in 1..Len(v[2]) |-> Mark(v[2][i], o)]>>
  ELSE IF v[1] \in {"map", "mmap"} THEN <<v[1], [i \in 1..Len(v[2]) |-> <<v[2][i][1], Mark(v[2][i][2], o)>>]>>
  ELSE <<"rec", Mark(v[2], o), Mark(v[3], o), Mark(v[4], o)>>

\* leaves of an M value as a set of <<kind, value, origin>>
RECURSIVE Leaves(_)
Leaves(v) ==
  IF v[1] \in {"i", "s", "b"} THEN {v}
  ELSE IF v[1] = "none" THEN {}
  ELSE IF v[1] = "some" THEN Leaves(v[2])
  ELSE IF v[1] \in {"seq", "set"} THEN UNION {Leaves(v[2][i]) : i \in 1..Len(v[2])}
  ELSE IF v[1] \in {"map", "mmap"} THEN UNION {Leaves(v[2][i][2]) : i \in 1..Len(v[2])}
  ELSE Leaves(v[2]) \cup Leaves(v[3]) \cup Leaves(v[4])

HasStale(v) == \E l \in Leaves(v) : l[3] = "stale"

-----------------------------------------------------------------------------
(* Small container algebra used by M                                          *)

\* std::vector::resize(n): truncate or pad with value-initialised elements
Resize(s, n, T) == [i \in 1..n |-> IF i <= Len(s) THEN s[i] ELSE Fresh(T)]

\* ordered insertion of an integer leaf (std::set / multiset / unordered variants in canonical order)
RECURSIVE InsertSorted(_, _, _, _)
InsertSorted(s, v, unique, i) ==
  IF i > Len(s) THEN Append(s, v)
  ELSE IF unique /\ s[i][2] = v[2] THEN s
  ELSE IF v[2] < s[i][2] THEN SubSeq(s, 1, i - 1) \o <<v>> \o SubSeq(s, i, Len(s))
  ELSE InsertSorted(s, v, unique, i + 1)

\* maps: sequence of <<keyIndex, value>> ordered by key index
RECURSIVE MapFind(_, _, _)
MapFind(es, k, i) == IF i > Len(es) THEN 0 ELSE IF es[i][1] = k THEN i ELSE MapFind(es, k, i + 1)
RECURSIVE MapInsert(_, _, _, _)
MapInsert(es, k, v, i) ==
  IF i > Len(es) THEN Append(es, <<k, v>>)
  ELSE IF k < es[i][1] THEN SubSeq(es, 1, i - 1) \o << <<k, v>> >> \o SubSeq(es, i, Len(es))
  ELSE MapInsert(es, k, v, i + 1)
MapKeys(es) == {es[i][1] : i \in 1..Len(es)}

\* multimap entries ordered by (key index, integer value): canonical order, equal keys have no specified order
MMLess(a, b) == a[1] < b[1] \/ (a[1] = b[1] /\ a[2][2] < b[2][2])
RECURSIVE MMInsert(_, _, _)
MMInsert(es, e, i) ==
  IF i > Len(es) THEN Append(es, e)
  ELSE IF MMLess(e, es[i]) THEN SubSeq(es, 1, i - 1) \o <<e>> \o SubSeq(es, i, Len(es))
  ELSE MMInsert(es, e, i + 1)

\* member of a document object (or <<"absent">>)
RECURSIVE Member(_, _, _)
Member(pairs, key, i) == IF i > Len(pairs) THEN <<"absent">> ELSE IF pairs[i][1] = key THEN pairs[i][2] ELSE Member(pairs, key, i + 1)

KeyIndex(name) == CHOOSE i \in 1..Len(KeyNames) : KeyNames[i] = name

\* estimated size reported by the array scope:  zero (CSV; scopes that cannot tell), exact, larger
EstOf(est, n) == IF est = "zero" THEN 0 ELSE IF est = "exact" THEN n ELSE n + 2

-----------------------------------------------------------------------------
(* What the archive reports for a null value, by kind of target                *)
\* kind: "fund" | "str" | "arr" | "obj"
NullInto(kind, cur, env) ==
  IF env.arch = "json" /\ kind # "fund" /\ DevJsonNull \in env.devs /\ env.mm = "throw" THEN Err(Mismatch, {DevJsonNull})
  ELSE IF env.arch = "xml" /\ kind \in {"arr", "obj"} /\ DevXmlCont \in env.devs /\ env.mm = "throw" THEN Err(Mismatch, {DevXmlCont})
  ELSE NotLoaded(cur, {})

\* XML: array/object node without child elements that is not the document root
XmlEmptyNode(d, env) == env.arch = "xml" /\ ~env.root /\ DevXmlCont \in env.devs /\ d[1] \in {"arr", "obj"} /\ d[2] = <<>>

Nested(env) == [env EXCEPT !.est = "exact", !.root = FALSE]

-----------------------------------------------------------------------------
(* M: implementation-shaped load of document d into the current value cur of type T *)

RECURSIVE MLoad(_, _, _, _), LoadSlots(_, _, _, _, _, _), SetSlots(_, _, _, _, _, _), MapSlots(_, _, _, _, _, _),
          MMSlots(_, _, _, _, _), TupleSlots(_, _, _, _, _, _)

\* Elements 1..Len(items) of a sequence are loaded into slots: slot i <= Len(c1) already exists (reused), the others
\* are created value-initialised (emplace_back).  acc = [vs, err, dv]
LoadSlots(Te, c1, items, env, i, acc) ==
  IF i > Len(items) \/ acc.err # "" THEN acc
  ELSE LET reused == i <= Len(c1)
           inplace == IF reused THEN MLoad(Te, c1[i], items[i], env) ELSE MLoad(Te, Fresh(Te), items[i], env)
           clean == MLoad(Te, Fresh(Te), items[i], env)
           differs == reused /\ inplace.err = "" /\ clean.err = "" /\ Strip(inplace.v) # Strip(clean.v)
           r == IF DevReused \in env.devs THEN inplace ELSE clean
           fired == IF DevReused \in env.devs /\ differs THEN {DevReused} ELSE {}
       IN LoadSlots(Te, c1, items, env, i + 1,
                    [vs |-> Append(acc.vs, r.v), err |-> r.err, dv |-> IF r.err # "" THEN r.dv ELSE acc.dv \cup r.dv \cup fired, fv |-> acc.fv \cup r.fv \cup fired])

SlotAcc == [vs |-> <<>>, err |-> "", dv |-> {}, fv |-> {}]

\* std::vector<bool> and std::bitset read every element into ONE temporary `bool value = false` and then store the
\* temporary unconditionally: an element that is not loaded (null) stores what the previous element left there.
RECURSIVE CarryBools(_, _, _, _)
CarryBools(items, i, carry, acc) ==
  IF i > Len(items) THEN acc
  ELSE IF items[i][1] = "b" THEN CarryBools(items, i + 1, items[i][2], Append(acc, items[i]))
  ELSE IF items[i][1] = "null" THEN CarryBools(items, i + 1, carry, Append(acc, <<"b", carry>>))
  ELSE CarryBools(items, i + 1, carry, Append(acc, items[i]))
RECURSIVE BoolCarry(_, _, _)
BoolCarry(items, i, carry) == IF i > Len(items) THEN carry ELSE BoolCarry(items, i + 1, IF items[i][1] = "b" THEN items[i][2] ELSE carry)

\* Detail::SerializeContainer and its copies (vector<bool>, forward_list, valarray, adaptors)
SeqLoad(kind, Te, cur, items0, env) ==
  LET items == IF Te = <<"bool">> THEN CarryBools(items0, 1, FALSE, <<>>) ELSE items0
      p == IF kind = "valarray" THEN <<>> ELSE cur[2]          \* valarray loads through a temporary std::vector
      n == Len(items)
      e == EstOf(env.est, n)
      \* step 1: pre-size when the archive reports a size; forward_list seeds one element when it is empty
      c1 == IF e # 0 THEN Resize(p, e, Te)
            ELSE IF kind = "flist" /\ p = <<>> THEN <<Fresh(Te)>>
            ELSE p
      \* steps 2+3: overwrite existing elements, then emplace_back / emplace_after(last) the rest
      ld == LoadSlots(Te, c1, items, Nested(env), 1, SlotAcc)
      c2 == [i \in 1..Max(Len(c1), n) |-> IF i <= n THEN ld.vs[i] ELSE c1[i]]
      \* step 4: cont.resize(loadedItems)
      c3 == Resize(c2, n, Te)
  IN IF ld.err # "" THEN Fv(Err(ld.err, ld.dv), ld.fv) ELSE Fv(Ok(<<"seq", c3>>, ld.dv), ld.fv)

\* Detail::SerializeFixedSizeArray (std::array, C array): load while both sides have items, then compare the sizes
FixLoad(n, Te, cur, items, env) ==
  LET m == Min(n, Len(items))
      ld == LoadSlots(Te, cur[2], SubSeq(items, 1, m), Nested(env), 1, SlotAcc)
  IN IF ld.err # "" THEN Fv(Err(ld.err, ld.dv), ld.fv)
     ELSE IF n # Len(items) THEN Fv(Err(OutOfRange, {}), ld.fv)
     ELSE Fv(Ok(<<"seq", ld.vs>>, ld.dv), ld.fv)

\* std::bitset<n>: n unconditional reads
BitsetLoad(n, cur, items, env) ==
  IF Len(items) < n THEN (IF env.arch = "xml" /\ DevXmlOver \in env.devs THEN Err(Crash, {DevXmlOver}) ELSE Err(OutOfRange, {}))
  ELSE LET ld == LoadSlots(<<"bool">>, cur[2], CarryBools(SubSeq(items, 1, n), 1, FALSE, <<>>), Nested(env), 1, SlotAcc)
       IN IF ld.err # "" THEN Fv(Err(ld.err, ld.dv), ld.fv) ELSE Fv(Ok(<<"seq", ld.vs>>, ld.dv), ld.fv)

\* std::tuple: one read per member, each into the existing member
TupleSlots(Ts, cur, items, env, i, acc) ==
  IF i > Len(Ts) \/ i > Len(items) \/ acc.err # "" THEN acc
  ELSE LET inplace == MLoad(Ts[i], cur[i], items[i], env)
           clean == MLoad(Ts[i], Fresh(Ts[i]), items[i], env)
           differs == inplace.err = "" /\ clean.err = "" /\ Strip(inplace.v) # Strip(clean.v)
           r == IF DevReused \in env.devs THEN inplace ELSE clean
           fired == IF DevReused \in env.devs /\ differs THEN {DevReused} ELSE {}
       IN TupleSlots(Ts, cur, items, env, i + 1, [vs |-> Append(acc.vs, r.v), err |-> r.err, dv |-> IF r.err # "" THEN r.dv ELSE acc.dv \cup r.dv \cup fired, fv |-> acc.fv \cup r.fv \cup fired])

TupleLoad(Ts, cur, items, env) ==
  LET ld == TupleSlots(Ts, cur[2], items, Nested(env), 1, SlotAcc) IN
  IF ld.err # "" THEN Fv(Err(ld.err, ld.dv), ld.fv)
  ELSE IF Len(items) < Len(Ts) THEN
       (IF env.arch = "xml" /\ DevXmlOver \in env.devs THEN Err(Crash, {DevXmlOver})
        ELSE IF env.mm = "throw" THEN Fv(Err(Mismatch, {}), ld.fv)
        ELSE Fv(Ok(<<"seq", ld.vs \o SubSeq(cur[2], Len(items) + 1, Len(Ts))>>, ld.dv), ld.fv))
  ELSE IF Len(items) > Len(Ts) /\ env.mm = "throw" THEN Fv(Err(Mismatch, {}), ld.fv)
  ELSE Fv(Ok(<<"seq", ld.vs>>, ld.dv), ld.fv)

\* Detail::SerializeSetImpl: clear(), then `TValue value; Serialize(scope, value); insert(hint, value)`
SetSlots(kind, Te, items, env, i, acc) ==
  IF i > Len(items) \/ acc.err # "" THEN acc
  ELSE LET r == MLoad(Te, Fresh(Te), items[i], env) IN
       SetSlots(kind, Te, items, env, i + 1,
                [vs |-> IF r.err # "" THEN acc.vs ELSE InsertSorted(acc.vs, r.v, kind \in {"set", "uset"}, 1),
                 err |-> r.err, dv |-> IF r.err # "" THEN r.dv ELSE acc.dv \cup r.dv, fv |-> acc.fv \cup r.fv])

SetLoad(kind, Te, cur, items, env) ==
  LET c0 == <<>>                                            \* cont.clear()
      ld == SetSlots(kind, Te, items, Nested(env), 1, [vs |-> c0, err |-> "", dv |-> {}, fv |-> {}])
  IN IF ld.err # "" THEN Fv(Err(ld.err, ld.dv), ld.fv) ELSE Fv(Ok(<<"set", ld.vs>>, ld.dv), ld.fv)

\* Detail::SerializeMapImpl.  pairs = <<keyName, doc>>; acc = [vs (entries), err, dv]
MapSlots(V, mode, pairs, env, i, acc) ==
  IF i > Len(pairs) \/ acc.err # "" THEN acc
  ELSE LET k == KeyIndex(pairs[i][1])
           at == MapFind(acc.vs, k, 1)
       IN IF mode = "onlyexist" /\ at = 0 THEN MapSlots(V, mode, pairs, env, i + 1, acc)       \* find(key) = end(): value not read
          ELSE LET es == IF at = 0 THEN MapInsert(acc.vs, k, Fresh(V), 1) ELSE acc.vs        \* try_emplace / operator[]
                   j == MapFind(es, k, 1)
                   r == MLoad(V, es[j][2], pairs[i][2], env)                                  \* Serialize(scope, key, it->second)
               IN MapSlots(V, mode, pairs, env, i + 1,
                           [vs |-> IF r.err # "" THEN es ELSE [es EXCEPT ![j] = <<k, r.v>>], err |-> r.err, dv |-> IF r.err # "" THEN r.dv ELSE acc.dv \cup r.dv, fv |-> acc.fv \cup r.fv])

MapLoad(V, mode, cur, pairs, env) ==
  LET c0 == IF mode = "clean" THEN <<>> ELSE cur[2]         \* if (mapLoadMode == Clean) cont.clear()
      ld == MapSlots(V, mode, pairs, Nested(env), 1, [vs |-> c0, err |-> "", dv |-> {}, fv |-> {}])
  IN IF ld.err # "" THEN Fv(Err(ld.err, ld.dv), ld.fv) ELSE Fv(Ok(<<"map", ld.vs>>, ld.dv), ld.fv)

\* Detail::SerializeMultiMapImpl: clear(); per item a value-initialised pair is loaded as {key, value} and emplaced
MMSlots(V, items, env, i, acc) ==
  IF i > Len(items) \/ acc.err # "" THEN acc
  ELSE LET it == items[i] IN
       IF it[1] # "obj" THEN MMSlots(V, items, env, i + 1, acc)                                \* pair not loaded: not inserted
       ELSE LET k == Member(it[2], "key", 1)
                r == MLoad(V, Fresh(V), Member(it[2], "value", 1), env)
            IN MMSlots(V, items, env, i + 1,
                       [vs |-> IF r.err # "" THEN acc.vs ELSE MMInsert(acc.vs, <<KeyIndex(k[2]), r.v>>, 1), err |-> r.err, dv |-> IF r.err # "" THEN r.dv ELSE acc.dv \cup r.dv, fv |-> acc.fv \cup r.fv])

MMLoad(V, cur, items, env) ==
  LET ld == MMSlots(V, items, Nested(env), 1, [vs |-> <<>>, err |-> "", dv |-> {}, fv |-> {}]) IN
  IF ld.err # "" THEN Fv(Err(ld.err, ld.dv), ld.fv) ELSE Fv(Ok(<<"mmap", ld.vs>>, ld.dv), ld.fv)

\* class Rec { int16_t x; std::string s; std::unique_ptr<std::string> p; }: each member requested by key, loaded in place
RecLoad(cur, pairs, env) ==
  LET e == Nested(env)
      x == MLoad(<<"i16">>, cur[2], Member(pairs, "x", 1), e)
      s == MLoad(<<"str">>, cur[3], Member(pairs, "s", 1), e)
      p == MLoad(<<"uptr", <<"str">>>>, cur[4], Member(pairs, "p", 1), e)
      dv == x.dv \cup s.dv \cup p.dv
      fv == x.fv \cup s.fv \cup p.fv
  IN IF x.err # "" THEN Fv(Err(x.err, x.dv), fv) ELSE IF s.err # "" THEN Fv(Err(s.err, s.dv), fv) ELSE IF p.err # "" THEN Fv(Err(p.err, p.dv), fv)
     ELSE Fv(Ok(<<"rec", x.v, s.v, p.v>>, dv), fv)

\* mode is only meaningful for T = <<"map",..>> at the outermost level; nested maps load in Clean mode
MLoadMode(T, mode, cur, d, env) ==
  IF T[1] = "map" /\ d[1] = "obj" /\ ~XmlEmptyNode(d, env) THEN MapLoad(T[3], mode, cur, d[2], env) ELSE MLoad(T, cur, d, env)

MLoad(T, cur, d, env) ==
  LET k == T[1] IN
  IF d[1] = "absent" THEN
       (IF k \in {"opt", "uptr", "sptr"} THEN NotLoaded(<<"none">>, {}) ELSE NotLoaded(cur, {}))
  ELSE IF k \in {"i16", "atomic"} THEN
       IF d[1] = "i" THEN Ok(<<"i", d[2], "loaded">>, {})
       ELSE IF d[1] = "big" THEN NotLoaded(cur, {})                      \* OverflowNumberPolicy::Skip
       ELSE IF d[1] = "null" THEN NullInto("fund", cur, env)
       ELSE Err(Mismatch, {})
  ELSE IF k = "bool" THEN
       IF d[1] = "b" THEN Ok(<<"b", d[2], "loaded">>, {})
       ELSE IF d[1] = "null" THEN NullInto("fund", cur, env)
       ELSE Err(Mismatch, {})
  ELSE IF k = "str" THEN
       IF d[1] = "s" THEN (IF d[2] = "" /\ env.arch = "xml" /\ DevXmlStr \in env.devs THEN NotLoaded(cur, {DevXmlStr})
                           ELSE Ok(<<"s", d[2], "loaded">>, {}))       \* value.assign(view)
       ELSE IF d[1] = "null" THEN NullInto("str", cur, env)
       ELSE Err(Mismatch, {})
  ELSE IF k \in {"opt", "uptr", "sptr"} THEN
       \* if (!has_value) value = T();  if (Serialize(value)) return true;  reset(); return false;
       LET inner == IF cur[1] = "none" THEN Fresh(T[2]) ELSE cur[2]
           r == MLoad(T[2], inner, d, env)
       IN IF r.err # "" THEN r
          ELSE IF r.ok THEN Fv(Ok(<<"some", r.v>>, r.dv), r.fv)
          ELSE Fv(NotLoaded(<<"none">>, r.dv), r.fv)
  ELSE IF k \in {"seq", "fix", "tuple", "set", "mmap"} THEN
       IF d[1] = "null" THEN NullInto("arr", cur, env)
       ELSE IF d[1] # "arr" THEN Err(Mismatch, {})
       ELSE IF XmlEmptyNode(d, env) THEN (IF env.mm = "throw" THEN Err(Mismatch, {DevXmlCont}) ELSE NotLoaded(cur, {DevXmlCont}))
       ELSE IF k = "seq" THEN SeqLoad(T[2], T[3], cur, d[2], env)
       ELSE IF k = "fix" THEN (IF T[2] = "bitset" THEN BitsetLoad(T[3], cur, d[2], env) ELSE FixLoad(T[3], T[4], cur, d[2], env))
       ELSE IF k = "tuple" THEN TupleLoad(T[2], cur, d[2], env)
       ELSE IF k = "set" THEN SetLoad(T[2], T[3], cur, d[2], env)
       ELSE MMLoad(T[3], cur, d[2], env)
  ELSE \* "map" | "rec"
       IF d[1] = "null" THEN NullInto("obj", cur, env)
       ELSE IF d[1] # "obj" THEN Err(Mismatch, {})
       ELSE IF XmlEmptyNode(d, env) THEN (IF env.mm = "throw" THEN Err(Mismatch, {DevXmlCont}) ELSE NotLoaded(cur, {DevXmlCont}))
       ELSE IF k = "map" THEN MapLoad(T[3], "clean", cur, d[2], env)
       ELSE RecLoad(cur, d[2], env)

-----------------------------------------------------------------------------
(* A: what the load denotes.  cur (untagged) is consulted only where the documentation says that the target keeps  *)
(* its value: a value that is not loaded (null / absent / skipped by policy) into a plain member, and the two       *)
(* non-default map modes.  Result [v, ok, err].                                                                     *)

AFresh(T) == Strip(Fresh(T))
AOk(v) == [v |-> v, ok |-> TRUE, err |-> ""]
ANot(c) == [v |-> c, ok |-> FALSE, err |-> ""]
AErr(code) == [v |-> <<"none">>, ok |-> FALSE, err |-> code]

RECURSIVE ALoad(_, _, _, _), AElems(_, _, _, _, _), AFirstErr(_, _)

AFirstErr(rs, i) == IF i > Len(rs) THEN "" ELSE IF rs[i].err # "" THEN rs[i].err ELSE AFirstErr(rs, i + 1)

\* element i of a container is the value item i denotes for a value-initialised element
AElems(Te, items, mm, i, acc) == IF i > Len(items) THEN acc ELSE AElems(Te, items, mm, i + 1, Append(acc, ALoad(Te, AFresh(Te), items[i], mm)))

ASeqOf(rs) == [i \in 1..Len(rs) |-> rs[i].v]

RECURSIVE ASetOf(_, _, _, _), AMapOf(_, _, _, _, _, _), AMMOf(_, _, _, _, _)
ASetOf(rs, unique, i, acc) == IF i > Len(rs) THEN acc ELSE ASetOf(rs, unique, i + 1, InsertSorted(acc, rs[i].v, unique, 1))

\* map laws: clean = exactly the document; onlyexist never adds a key; update never removes one
AMapOf(V, mode, pairs, mm, i, acc) ==
  IF i > Len(pairs) \/ acc.err # "" THEN acc
  ELSE LET k == KeyIndex(pairs[i][1])
           at == MapFind(acc.vs, k, 1)
       IN IF mode = "onlyexist" /\ at = 0 THEN AMapOf(V, mode, pairs, mm, i + 1, acc)
          ELSE LET old == IF at = 0 THEN AFresh(V) ELSE acc.vs[at][2]
                   r == ALoad(V, old, pairs[i][2], mm)
                   es == IF at = 0 THEN MapInsert(acc.vs, k, r.v, 1) ELSE [acc.vs EXCEPT ![at] = <<k, r.v>>]
               IN AMapOf(V, mode, pairs, mm, i + 1, [vs |-> es, err |-> r.err])

AMMOf(V, items, mm, i, acc) ==
  IF i > Len(items) \/ acc.err # "" THEN acc
  ELSE IF items[i][1] # "obj" THEN AMMOf(V, items, mm, i + 1, acc)
  ELSE LET r == ALoad(V, AFresh(V), Member(items[i][2], "value", 1), mm) IN
       AMMOf(V, items, mm, i + 1, [vs |-> IF r.err # "" THEN acc.vs ELSE MMInsert(acc.vs, <<KeyIndex(Member(items[i][2], "key", 1)[2]), r.v>>, 1), err |-> r.err])

AMapMode(V, mode, cur, pairs, mm) ==
  LET r == AMapOf(V, mode, pairs, mm, 1, [vs |-> IF mode = "clean" THEN <<>> ELSE cur[2], err |-> ""]) IN
  IF r.err # "" THEN AErr(r.err) ELSE AOk(<<"map", r.vs>>)

ALoad(T, cur, d, mm) ==
  LET k == T[1] IN
  IF k \in {"opt", "uptr", "sptr"} THEN
       \* "when the loaded object is NULL or does not exist, the smart pointer will be reset" (README)
       LET r == ALoad(T[2], AFresh(T[2]), d, mm) IN
       IF r.err # "" THEN r ELSE IF r.ok THEN AOk(<<"some", r.v>>) ELSE ANot(<<"none">>)
  ELSE IF d[1] \in {"absent", "null", "big"} THEN ANot(cur)
  ELSE IF k \in {"i16", "atomic"} THEN (IF d[1] = "i" THEN AOk(d) ELSE AErr(Mismatch))
  ELSE IF k = "bool" THEN (IF d[1] = "b" THEN AOk(d) ELSE AErr(Mismatch))
  ELSE IF k = "str" THEN (IF d[1] = "s" THEN AOk(d) ELSE AErr(Mismatch))
  ELSE IF k = "rec" THEN
       IF d[1] # "obj" THEN AErr(Mismatch)
       ELSE LET x == ALoad(<<"i16">>, cur[2], Member(d[2], "x", 1), mm)
                s == ALoad(<<"str">>, cur[3], Member(d[2], "s", 1), mm)
                p == ALoad(<<"uptr", <<"str">>>>, cur[4], Member(d[2], "p", 1), mm)
                e == AFirstErr(<<x, s, p>>, 1)
            IN IF e # "" THEN AErr(e) ELSE AOk(<<"rec", x.v, s.v, p.v>>)
  ELSE IF k = "map" THEN (IF d[1] # "obj" THEN AErr(Mismatch) ELSE AMapMode(T[3], "clean", cur, d[2], mm))
  ELSE IF d[1] # "arr" THEN AErr(Mismatch)
  ELSE IF k = "mmap" THEN
       LET r == AMMOf(T[3], d[2], mm, 1, [vs |-> <<>>, err |-> ""]) IN IF r.err # "" THEN AErr(r.err) ELSE AOk(<<"mmap", r.vs>>)
  ELSE IF k = "tuple" THEN
       LET n == Len(T[2]) m == Min(n, Len(d[2]))
           rs == [i \in 1..m |-> ALoad(T[2][i], AFresh(T[2][i]), d[2][i], mm)]
           e == AFirstErr(rs, 1)
       IN IF e # "" THEN AErr(e)
          ELSE IF Len(d[2]) # n /\ mm = "throw" THEN AErr(Mismatch)      \* tuple.h: size mismatch goes through MismatchedTypesPolicy
          ELSE AOk(<<"seq", [i \in 1..n |-> IF i <= m THEN rs[i].v ELSE cur[2][i]]>>)
  ELSE LET Te == IF k = "fix" THEN T[4] ELSE T[3]
           n == IF k = "fix" THEN T[3] ELSE Len(d[2])
           items == IF k = "fix" /\ T[2] = "bitset" THEN SubSeq(d[2], 1, Min(n, Len(d[2]))) ELSE d[2]
           rs == AElems(Te, items, mm, 1, <<>>)
           e == AFirstErr(rs, 1)
       IN IF k = "fix" /\ T[2] = "bitset" /\ Len(d[2]) < n THEN AErr(OutOfRange)
          ELSE IF e # "" THEN AErr(e)
          ELSE IF k = "fix" /\ T[2] # "bitset" /\ Len(d[2]) # n THEN AErr(OutOfRange)   \* README: fixed size arrays throw when the sizes differ
          ELSE IF k = "set" THEN AOk(<<"set", ASetOf(rs, T[2] \in {"set", "uset"}, 1, <<>>)>>)
          ELSE AOk(<<"seq", ASeqOf(rs)>>)

ALoadMode(T, mode, cur, d, mm) ==
  IF T[1] = "map" /\ d[1] = "obj" THEN AMapMode(T[3], mode, cur, d[2], mm) ELSE ALoad(T, cur, d, mm)

-----------------------------------------------------------------------------
(* Names shared with the harness catalogue (harness/cont_harness.cpp)          *)
Digit(n) == <<"0", "1", "2", "3", "4", "5", "6", "7", "8", "9">>[n + 1]

RECURSIVE TName(_)
TName(T) ==
  IF T[1] \in {"i16", "bool", "str", "rec"} THEN T[1]
  ELSE IF T[1] = "atomic" THEN "atomic<i16>"
  ELSE IF T[1] \in {"opt", "uptr", "sptr"} THEN T[1] \o "<" \o TName(T[2]) \o ">"
  ELSE IF T[1] \in {"seq", "set"} THEN T[2] \o "<" \o TName(T[3]) \o ">"
  ELSE IF T[1] = "fix" THEN (IF T[2] = "bitset" THEN "bitset" \o Digit(T[3]) ELSE T[2] \o Digit(T[3]) \o "<" \o TName(T[4]) \o ">")
  ELSE IF T[1] = "tuple" THEN "tuple<" \o TName(T[2][1]) \o "," \o TName(T[2][2]) \o ">"
  ELSE T[2] \o "<str," \o TName(T[3]) \o ">"

\* canonical rendering of an A value: key indices become the key strings
RECURSIVE Canon(_)
Canon(v) ==
  IF v[1] \in {"i", "s", "b", "none"} THEN v
  ELSE IF v[1] = "some" THEN <<"some", Canon(v[2])>>
  ELSE IF v[1] \in {"seq", "set"} THEN <<v[1], [i \in 1..Len(v[2]) |-> Canon(v[2][i])]>>
  ELSE IF v[1] \in {"map", "mmap"} THEN <<v[1], [i \in 1..Len(v[2]) |-> << <<"s", KeyNames[v[2][i][1]]>>, Canon(v[2][i][2])>>]>>
  ELSE <<"rec", Canon(v[2]), Canon(v[3]), Canon(v[4])>>

\* document as the harness saves it: "big" is an int32 that does not fit the int16 targets
BigValue == 70000
RECURSIVE DocOut(_)
DocOut(d) ==
  IF d[1] = "big" THEN <<"i", BigValue>>
  ELSE IF d[1] = "arr" THEN <<"arr", [i \in 1..Len(d[2]) |-> DocOut(d[2][i])]>>
  ELSE IF d[1] = "obj" THEN <<"obj", [i \in 1..Len(d[2]) |-> <<d[2][i][1], DocOut(d[2][i][2])>>]>>
  ELSE d

RECURSIVE DocHas(_, _)
DocHas(d, kind) ==
  d[1] = kind
  \/ (d[1] = "arr" /\ \E i \in 1..Len(d[2]) : DocHas(d[2][i], kind))
  \/ (d[1] = "obj" /\ \E i \in 1..Len(d[2]) : DocHas(d[2][i][2], kind))

\* loadable leaves of a document (what must not be lost)
RECURSIVE DocLeaves(_)
DocLeaves(d) ==
  IF d[1] \in {"i", "s", "b"} THEN {d}
  ELSE IF d[1] = "arr" THEN UNION {DocLeaves(d[2][i]) : i \in 1..Len(d[2])}
  ELSE IF d[1] = "obj" THEN UNION {IF d[2][i][1] = "key" THEN {} ELSE DocLeaves(d[2][i][2]) : i \in 1..Len(d[2])}   \* multimap keys are not values
  ELSE {}
=============================================================================
