INIT Init
NEXT Next
