------------------------------- MODULE Robust -------------------------------
(***************************************************************************)
(* C02 - no input can crash, hang or exhaust the loader or the string       *)
(* converters.  The abstract statement A, and the named deviations of the   *)
(* unchanged tree.                                                          *)
(*                                                                          *)
(* One RUN = one call of LoadObject<Archive>(target, input [, options]) or  *)
(* of a group of Convert::To<> / Utf decoder calls, on one input.           *)
(*                                                                          *)
(* A.1  outcome alphabet.  The harness classifies what happened to the run: *)
(*        Completed | StdException          (allowed)                       *)
(*        NonStdException | Terminate | Crash | Hang | Sanitizer            *)
(*      Crash = death by signal; Hang = the CPU-time watchdog fired;        *)
(*      Sanitizer = ASan/UBSan printed a report during the run (the only    *)
(*      way undefined behaviour becomes observable).                        *)
(* A.2  resource bound.  With n = |input| (bytes; code units for the string *)
(*      converters):                                                        *)
(*        largest single allocation request   <= CPeak  * n + KPeak         *)
(*        bytes requested during the call     <= CTotal * n + KTotal        *)
(*      The constants are derived from what WELL-FORMED inputs need:        *)
(*        CPeak = 256: a well-formed array of n one-byte elements loaded    *)
(*          into vector<T> legitimately requests n * sizeof(T) in one       *)
(*          block; the largest element type of the target catalogue has     *)
(*          sizeof = 176 (class with string / vector / map members)         *)
(*        KPeak = 128 KiB: RapidJSON's pool allocator requests 64 KiB + 24  *)
(*          for any document, pugixml 32 KiB pages                          *)
(*        CTotal = 256, KTotal = 256 KiB: measured maxima over the          *)
(*          well-formed inputs of MC_Robust (valid, Nest(d), Wide(n)) are   *)
(*          175 bytes per input byte for the largest single request and     *)
(*          173 for the bytes requested (vector<Cls> from Wide(100000):     *)
(*          one 176-byte element per input byte), 43 for the JSON DOM       *)
(*          (RapidJSON values + parse stack growth) on Nest(100000)         *)
(*      The counters of the harness saturate at Sat = 2^30 (TLC integers).  *)
(* A.3  stack.  Nesting depth d must not crash: the run completes or        *)
(*      throws (a consequence of A.1; the deviation below is its guard).    *)
(***************************************************************************)
EXTENDS Naturals, Integers, Sequences, FiniteSets, SequencesExt

Outcomes == {"Completed", "StdException", "NonStdException", "Terminate", "Crash", "Hang", "Sanitizer"}
Allowed  == {"Completed", "StdException"}

CPeak  == 256
KPeak  == 131072
CTotal == 256
KTotal == 262144
Sat    == 1073741824

PeakBound(n)  == (CPeak * n) + KPeak
TotalBound(n) == (CTotal * n) + KTotal

\* accounting kinds: "malloc" = every request of the process (normal build), "new" = C++ allocations only (sanitizer build:
\* a lower bound of the real figure, so exceeding the bound is still a violation; the total is not judged)
WithinBounds(n, acc, pk, tb) ==
  /\ pk <= PeakBound(n)
  /\ acc = "malloc" => tb <= TotalBound(n)

\* A: the verdict of one run
RunAllowed(n, r) == r.o \in Allowed /\ WithinBounds(n, r.acc, r.pk, r.tb)

WhyNot(n, r) ==
  IF r.o \notin Allowed THEN "outcome " \o r.o \o (IF r.o = "Sanitizer" THEN " (" \o r.kind \o ")" ELSE IF r.x # "" THEN " (" \o r.x \o ")" ELSE "")
  ELSE IF r.pk > PeakBound(n) THEN "single allocation request above CPeak*n+KPeak"
  ELSE "bytes requested during the call above CTotal*n+KTotal"

-----------------------------------------------------------------------------
(* Inputs are run-length encoded: a sequence of <<count, bytes>> segments;   *)
(* the document is the concatenation of `count` copies of each segment.      *)
(* (Nest(100000) has 700 000 bytes; its RLE form has three segments.)        *)

RleLen(rle) == FoldLeft(LAMBDA acc, s : acc + (s[1] * Len(s[2])), 0, rle)
Expand(rle) == FoldLeft(LAMBDA acc, s : acc \o FlattenSeq([k \in 1..s[1] |-> s[2]]), <<>>, rle)

\* container-opening tokens used by the Nest action (one nesting level each)
OpenTok(fmt) ==
  IF fmt = "msgpack" THEN { <<145>>,                        \* fixarray of one element
                            <<129, 161, 99>>,                \* fixmap {"c": ...
                            <<129, 161, 107, 145>> }         \* fixmap {"k": [ ...     (two levels per token)
  ELSE IF fmt = "json" THEN { <<91>>, <<123, 34, 99, 34, 58>>, <<123, 34, 107, 34, 58, 91>> }      \*  [   {"c":   {"k":[
  ELSE IF fmt = "xml" THEN { <<60, 99, 62>>, <<60, 107, 62, 60, 111, 62>> }                        \*  <c>   <k><o>
  ELSE {}

\* length of the longest run of container-opening tokens: a lower bound of the nesting depth, exact for Nest documents
NestRun(fmt, rle) ==
  LET runs == {0} \cup { rle[i][1] : i \in { j \in DOMAIN rle : rle[j][2] \in OpenTok(fmt) } }
  IN CHOOSE m \in runs : \A x \in runs : x <= m

-----------------------------------------------------------------------------
(* Model of the two mechanisms (used by MC_Robust for its lemmas).           *)

\* a loader that reserves only for elements that can be present: every element occupies at least one byte
AbstractPresize(declared, avail, elemSize) == (IF declared < avail THEN declared ELSE avail) * elemSize
\* the unchanged tree: SerializeContainer resizes to the declared count before reading anything
DevPresize(declared, elemSize) == declared * elemSize

StackBytes == 8388608                \* default RLIMIT_STACK
\* the depth below which recursion with frames of at most `frame` bytes per nesting level fits the stack
SafeDepth(frame) == StackBytes \div frame
\* measured on the unchanged tree: no overflow at D0 - 1 levels and below, overflow reproduced at 20000 (g++ -O1) / 6000 (ASan)
D0(build) == IF build = "san" THEN 5000 ELSE 15000
ASSUME D0("gcc") <= SafeDepth(512) /\ D0("san") <= SafeDepth(1600)

-----------------------------------------------------------------------------
(* Named deviations of the unchanged tree (each with its guard).             *)

\* MsgPack: some header with a 16/32-bit count or length field (array / map: dc dd de df; str: da db; bin: c5 c6; ext: c8 c9)
\* declares more elements / payload bytes than the whole document has bytes - what the reference decoder of
\* spec/MsgPackFormat.tla reports as err = "count".  (Scan over all byte positions: an over-approximation of "the loader
\* reaches such a header"; the deviation additionally demands the allocation symptom.)
Be(b, p, w) == IF w = 2 THEN (b[p] * 256) + b[p + 1]
               ELSE IF b[p] >= 128 THEN 2147483647
               ELSE (((((b[p] * 256) + b[p + 1]) * 256) + b[p + 2]) * 256) + b[p + 3]
DeclaredExceeds(b) ==
  \E p \in 1..Len(b) :
     \/ b[p] \in {220, 222, 218, 197, 200} /\ p + 2 <= Len(b) /\ Be(b, p + 1, 2) > Len(b)
     \/ b[p] \in {221, 223, 219, 198, 201} /\ p + 4 <= Len(b) /\ Be(b, p + 1, 4) > Len(b)

AllocSymptom(n, r) ==
  \/ r.o = "StdException" /\ r.x = "std:bad_alloc"
  \/ r.o \in Allowed /\ ~WithinBounds(n, r.acc, r.pk, r.tb)
  \/ r.o = "Sanitizer" /\ r.kind = "allocation-size-too-big"

\* containers and string buffers are pre-sized from the declared element count / byte length (known finding)
Dev_PresizeFromDeclaredCount(fmt, doc, n, r) ==
  /\ fmt = "msgpack"
  /\ DeclaredExceeds(doc)
  /\ AllocSymptom(n, r)

\* unbounded recursion over nested containers (MsgPack SkipValueImpl, recursive loading of nested user types on every
\* archive): the stack overflows
Dev_DeepNestingStackOverflow(fmt, rle, build, r) ==
  /\ NestRun(fmt, rle) >= D0(build)
  /\ \/ r.o = "Crash" /\ r.sig = 11 /\ r.stack
     \/ r.o = "Sanitizer" /\ r.kind = "stack-overflow"

\* MsgPack readers load multi-byte big-endian fields through a misaligned reinterpret_cast (undefined behaviour; works on x86)
Dev_MsgPackUnalignedLoad(fmt, r) ==
  /\ fmt = "msgpack"
  /\ r.o = "Sanitizer" /\ r.kind = "ubsan:misaligned-load" /\ r.file = "msgpack_readers.cpp"

\* stream readers move the unread tail of their window to the front with memcpy although the ranges may overlap
Dev_SqueezeMemcpyOverlap(r) ==
  /\ r.o = "Sanitizer" /\ r.kind = "memcpy-param-overlap"
  /\ r.stream

\* ISO-8601 duration parsing: the precision check of SafeDurationCast multiplies back in the signed target type, and the
\* most negative 64-bit value is produced by negating its magnitude (signed overflow: undefined behaviour; wraps on x86)
Dev_ChronoSignedOverflow(fmt, r) ==
  /\ fmt \in {"dt", "du"}
  /\ r.o = "Sanitizer" /\ r.kind = "ubsan:signed-overflow" /\ r.file = "convert_chrono.h"

\* classification of a rejected run: the name of the one deviation that explains it, or ""
Classify(fmt, rle, doc, n, build, r) ==
  IF Dev_DeepNestingStackOverflow(fmt, rle, build, r) THEN "Dev_DeepNestingStackOverflow"
  ELSE IF Dev_MsgPackUnalignedLoad(fmt, r) THEN "Dev_MsgPackUnalignedLoad"
  ELSE IF Dev_SqueezeMemcpyOverlap(r) THEN "Dev_SqueezeMemcpyOverlap"
  ELSE IF Dev_ChronoSignedOverflow(fmt, r) THEN "Dev_ChronoSignedOverflow"
  ELSE IF Dev_PresizeFromDeclaredCount(fmt, doc, n, r) THEN "Dev_PresizeFromDeclaredCount"
  ELSE ""
=============================================================================
