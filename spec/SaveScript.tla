------------------------------ MODULE SaveScript ------------------------------
(***************************************************************************)
(* Saving: the abstract document a save script denotes (A), its unique      *)
(* compact MessagePack encoding, and the implementation-shaped encoder M    *)
(* obtained from A by enabling named deviations:                            *)
(*   "signed" Dev_SignedPositiveNotCompact: a non-negative value of a       *)
(*            signed C++ type travels in the int8..int64 family             *)
(*   "ts96"   Dev_Timestamp96FieldOrder: seconds(8) before nanoseconds(4)   *)
(*   "negns"  Dev_NegativeNanoseconds: pre-epoch sub-second instants are    *)
(*            split by truncation (seconds+1, nanoseconds-10^9 < 0)         *)
(* EncTree(tree, {}) = Compact(DocOf(tree)) is checked by TLC.              *)
(***************************************************************************)
EXTENDS LoadScript

\* typed tree of a script:  <<"leaf", T, v>> | <<"obj", <<<<key, tree>>, ...>>>> | <<"arr", <<tree, ...>>>>
KeyValueOf(op) == IF op.op = "attr" THEN <<"leaf", "attrkey", <<"attr", op.ks>>>> ELSE IF "ks" \in DOMAIN op THEN <<"leaf", "str", <<"str", op.ks>>>> ELSE <<"leaf", "i64", IntSmall(op.ki)>>

RECURSIVE TreeOfOp(_), TreesOfOps(_, _, _)
\* {"op":"base"}: the members written by a base class land in the same object (BaseObject<T>), in place
TreesOfOps(ops, i, withKeys) ==
  IF i > Len(ops) THEN <<>>
  ELSE (IF ops[i].op = "base" THEN TreesOfOps(ops[i].ops, 1, TRUE)
        ELSE IF withKeys THEN <<<<KeyValueOf(ops[i]), TreeOfOp(ops[i])>>>> ELSE <<TreeOfOp(ops[i])>>) \o TreesOfOps(ops, i + 1, withKeys)
TreeOfOp(op) ==
  IF op.op \in {"req", "elem", "attr"} THEN <<"leaf", op.t, op.v>>
  ELSE IF op.op = "obj" THEN <<"obj", TreesOfOps(op.ops, 1, TRUE)>>
  ELSE <<"arr", TreesOfOps(op.ops, 1, FALSE)>>
TreeOfRoot(root) ==
  IF root.k = "leaf" THEN <<"leaf", root.t, root.v>>
  ELSE IF root.k = "obj" THEN <<"obj", TreesOfOps(root.ops, 1, TRUE)>>
  ELSE <<"arr", TreesOfOps(root.ops, 1, FALSE)>>

\* --- A: the document ------------------------------------------------------------------------------
RECURSIVE DocOf(_)
DocOf(t) ==
  IF t[1] = "leaf" THEN t[3]
  ELSE IF t[1] = "obj" THEN <<"map", [i \in 1..Len(t[2]) |-> <<DocOf(t[2][i][1]), DocOf(t[2][i][2])>>]>>
  ELSE <<"arr", [i \in 1..Len(t[2]) |-> DocOf(t[2][i])]>>

\* --- M: typed encoder with deviations -------------------------------------------------------------
SignedTypes == {"i8", "i16", "i32", "i64"}

\* non-negative magnitude in the signed family: fixint, then int16 / int32 / int64 (int8 cannot hold 128..255)
PosSignedEnc(m) ==
  IF SigBytes(m) = 0 \/ (SigBytes(m) = 1 /\ m[8] <= 127) THEN <<m[8]>>
  ELSE IF PosFitsSigned(m, 2) THEN <<209>> \o Low(m, 2)
  ELSE IF PosFitsSigned(m, 4) THEN <<210>> \o Low(m, 4)
  ELSE <<211>> \o m

Inc8(m) == Negate([i \in 1..8 |-> 255 - Negate(m)[i]])     \* not used
\* magnitude - 1 (m > 0): two's complement trick  m - 1 = ~(-m)
Dec8(m) == [i \in 1..8 |-> 255 - Negate(m)[i]]

TsEncM(v, devs) ==
  LET neg == v[2] m == v[3] ns == v[4] IN
  IF "negns" \in devs /\ neg /\ ns > 0 THEN
       \* truncation split: seconds = -(m - 1), nanoseconds = ns - 10^9 (negative), always timestamp 96
       LET m1 == Dec8(m)
           sec8 == IF IsZero(m1) THEN m1 ELSE Negate(m1)
           ns4 == Negate(BEbytes(1000000000 - ns, 4))
       IN IF "ts96" \in devs THEN <<199, 12, 255>> \o sec8 \o ns4 ELSE <<199, 12, 255>> \o ns4 \o sec8
  ELSE LET e == TsEnc(v, 0) IN
       IF "ts96" \in devs /\ e[1] = 199 THEN <<199, 12, 255>> \o SubSeq(e, 8, 15) \o SubSeq(e, 4, 7) ELSE e

RECURSIVE EncT(_, _, _), EncElems(_, _, _, _), EncMapT(_, _, _, _, _)
EncElems(items, E, devs, i) == IF i > Len(items) THEN <<>> ELSE EncT(E, items[i], devs) \o EncElems(items, E, devs, i + 1)
EncMapT(pairs, K, V, devs, i) ==
  IF i > Len(pairs) THEN <<>> ELSE EncT(K, pairs[i][1], devs) \o EncT(V, pairs[i][2], devs) \o EncMapT(pairs, K, V, devs, i + 1)

EncT(T, v, devs) ==
  IF v[1] = "int" /\ T \in SignedTypes /\ ~v[2] /\ "signed" \in devs THEN PosSignedEnc(v[3])
  ELSE IF v[1] = "ts" THEN TsEncM(v, devs)
  ELSE IF T = "vec_i32" THEN VarHdr(Len(v[2]), 0, 15, 144, 0, 220, 221) \o EncElems(v[2], "i32", devs, 1)
  ELSE IF T = "vec_str" THEN VarHdr(Len(v[2]), 0, 15, 144, 0, 220, 221) \o EncElems(v[2], "str", devs, 1)
  ELSE IF T = "vec_vec_i32" THEN VarHdr(Len(v[2]), 0, 15, 144, 0, 220, 221) \o EncElems(v[2], "vec_i32", devs, 1)
  ELSE IF T = "vec_vec_u8" THEN VarHdr(Len(v[2]), 0, 15, 144, 0, 220, 221) \o EncElems(v[2], "vec_u8", devs, 1)
  ELSE IF T = "map_str_i32" THEN VarHdr(Len(v[2]), 0, 15, 128, 0, 222, 223) \o EncMapT(v[2], "str", "i32", devs, 1)
  ELSE IF T = "map_i32_str" THEN VarHdr(Len(v[2]), 0, 15, 128, 0, 222, 223) \o EncMapT(v[2], "i32", "str", devs, 1)
  ELSE Enc(v, 0)

RECURSIVE EncTree(_, _), EncTreeSeq(_, _, _), EncTreePairs(_, _, _)
EncTreeSeq(ts, devs, i) == IF i > Len(ts) THEN <<>> ELSE EncTree(ts[i], devs) \o EncTreeSeq(ts, devs, i + 1)
EncTreePairs(ps, devs, i) == IF i > Len(ps) THEN <<>> ELSE EncTree(ps[i][1], devs) \o EncTree(ps[i][2], devs) \o EncTreePairs(ps, devs, i + 1)
EncTree(t, devs) ==
  IF t[1] = "leaf" THEN EncT(t[2], t[3], devs)
  ELSE IF t[1] = "obj" THEN VarHdr(Len(t[2]), 0, 15, 128, 0, 222, 223) \o EncTreePairs(t[2], devs, 1)
  ELSE VarHdr(Len(t[2]), 0, 15, 144, 0, 220, 221) \o EncTreeSeq(t[2], devs, 1)

DevSets == {{}, {"signed"}, {"ts96"}, {"negns"}, {"signed", "ts96"}, {"ts96", "negns"}, {"signed", "negns"}, {"signed", "ts96", "negns"}}

\* Verdict for one saved document: "ok" | "dev:<names>" | "bad:<why>"
RECURSIVE JoinNames(_)
JoinNames(S) == IF S = {} THEN "" ELSE LET x == CHOOSE y \in S : TRUE IN x \o (IF S = {x} THEN "" ELSE "+" \o JoinNames(S \ {x}))
SaveVerdict(root, mem, stream) ==
  LET tree == TreeOfRoot(root)
      doc == DocOf(tree)
      r == Decode(mem, 1)
      conform == r.ok /\ r.p = Len(mem) + 1 /\ r.v = doc
      compact == Len(mem) = Len(Compact(doc))
  IN IF stream # mem THEN "bad:memory and stream output differ"
     ELSE IF conform /\ compact THEN "ok"
     ELSE LET expl == {D \in DevSets : D # {} /\ mem = EncTree(tree, D)} IN
          IF expl # {} THEN "dev:" \o JoinNames(CHOOSE D \in expl : \A E \in expl : Cardinality(D) <= Cardinality(E))
          ELSE IF ~r.ok THEN "bad:output is not a well-formed MessagePack object"
          ELSE IF r.p # Len(mem) + 1 THEN "bad:output is more than one object"
          ELSE IF r.v # doc THEN "bad:an independent decoder recovers different data"
          ELSE "bad:not the most compact encoding"
-----------------------------------------------------------------------------
(* Wide string members: a std::u16string / std::u32string member holds the same text as a std::string member and is   *)
(* written as the same UTF-8 string, so the wide variant of a script denotes the same document and loads back the     *)
(* same text (the harness reports wide strings as the UTF-8 text they hold).                                          *)
RECURSIVE WideOps(_, _)
WideOp(op, wt) == IF "t" \in DOMAIN op /\ op.t = "str" THEN [op EXCEPT !.t = wt]
                  ELSE IF "ops" \in DOMAIN op THEN [op EXCEPT !.ops = WideOps(@, wt)] ELSE op
WideOps(ops, wt) == [i \in 1..Len(ops) |-> WideOp(ops[i], wt)]
WideRoot(r, wt) == IF r.k = "leaf" THEN (IF r.t = "str" THEN [r EXCEPT !.t = wt] ELSE r) ELSE [r EXCEPT !.ops = WideOps(@, wt)]
WideTypes == {"u16str", "u32str"}
=============================================================================
