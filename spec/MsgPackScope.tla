------------------------------ MODULE MsgPackScope ------------------------------
(***************************************************************************)
(* M: the implementation-shaped model of CMsgPackReadObjectScope over the   *)
(* BYTES of a MessagePack document (include/bitserializer/msgpack_archive.h *)
(* FindValueByKey / ReadKey / ResetKey / SerializeValue / VisitKeys /       *)
(* OnFinishChildScope / destructor).  The C++ members are the fields of m:  *)
(*    start  mStartPos  position behind the map header                      *)
(*    size   mSize      number of key/value pairs                           *)
(*    index  mIndex     pairs consumed so far (cursor, wraps around)        *)
(*    ck     mCurrentKey is set (a key was read, its value not yet)         *)
(*    key    the value of mCurrentKey when ck                               *)
(*    pos    position of the reader (GetPosition())                         *)
(* A: the abstract object is the sequence of pairs the bytes decode to;     *)
(* a request finds a key iff some pair carries it (LoadScript!FindKey).     *)
(* MC_MsgPackScope checks M => A for every request history on small         *)
(* documents; Trace_MsgPackScope validates the private state the real class *)
(* exposes to the harness after every public call.                          *)
(***************************************************************************)
EXTENDS LoadScript

\* MsgPackFormat!ValueEnd(b, p): position behind the value that starts at p (0 = the bytes do not hold a complete value there)
\* the key that starts at p
KeyAt(b, p) == LET r == DecodeX(b, p, FALSE) IN IF r.ok THEN [ok |-> TRUE, key |-> r.v, p |-> r.p] ELSE [ok |-> FALSE, key |-> <<"nil">>, p |-> 0]

MInitScope(start, size) == [start |-> start, size |-> size, index |-> 0, ck |-> FALSE, key |-> <<"nil">>, pos |-> start, err |-> FALSE]

Err(m) == [m EXCEPT !.err = TRUE]

\* ResetKey(): a pending key means its value is skipped
MResetKey(b, m) ==
  IF ~m.ck THEN m
  ELSE LET e == ValueEnd(b, m.pos) IN
       IF e = 0 THEN Err(m) ELSE [m EXCEPT !.ck = FALSE, !.pos = e, !.index = @ + 1]

\* the loop of FindValueByKey: c = pairs inspected so far
RECURSIVE MFindLoop(_, _, _, _)
MFindLoop(b, m, k, c) ==
  IF m.err THEN [m |-> m, found |-> FALSE]
  ELSE IF c >= m.size THEN [m |-> [m EXCEPT !.ck = FALSE], found |-> FALSE]
  ELSE LET w  == IF m.index = m.size THEN [m EXCEPT !.pos = m.start, !.index = 0] ELSE m     \* wrap around to mStartPos
           rk == KeyAt(b, w.pos)
       IN IF ~rk.ok THEN [m |-> Err(w), found |-> FALSE]
          ELSE IF KeyMatches(rk.key, k) THEN [m |-> [w EXCEPT !.ck = TRUE, !.key = rk.key, !.pos = rk.p], found |-> TRUE]
          ELSE LET e == ValueEnd(b, rk.p) IN
               IF e = 0 THEN [m |-> Err(w), found |-> FALSE]
               ELSE MFindLoop(b, [w EXCEPT !.pos = e, !.index = @ + 1, !.ck = FALSE], k, c + 1)

MFind(b, m, k) ==
  IF m.ck /\ KeyMatches(m.key, k) THEN [m |-> m, found |-> TRUE]
  ELSE MFindLoop(b, MResetKey(b, m), k, 0)

\* SerializeValue(key, value) and the scope-opening calls consume the value once the key is found: whatever the target does with
\* it (load, skip by policy, nested scope that is closed again), the cursor ends behind the value
MRequest(b, m, k) ==
  LET f == MFind(b, m, k) IN
  IF f.m.err \/ ~f.found THEN f
  ELSE LET e == ValueEnd(b, f.m.pos) IN
       IF e = 0 THEN [m |-> Err(f.m), found |-> TRUE]
       ELSE [m |-> [f.m EXCEPT !.ck = FALSE, !.pos = e, !.index = @ + 1], found |-> TRUE]

\* VisitKeys(): ResetKey, rewind, then read every key and skip its value
RECURSIVE MVisitLoop(_, _, _)
MVisitLoop(b, m, keys) ==
  IF m.err \/ m.index >= m.size THEN [m |-> m, keys |-> keys]
  ELSE LET rk == KeyAt(b, m.pos) IN
       IF ~rk.ok THEN [m |-> Err(m), keys |-> keys]
       ELSE LET e == ValueEnd(b, rk.p) IN
            IF e = 0 THEN [m |-> Err(m), keys |-> keys]
            ELSE MVisitLoop(b, [m EXCEPT !.pos = e, !.index = @ + 1], Append(keys, rk.key))
MVisit(b, m) ==
  LET m1 == MResetKey(b, m) IN
  IF m1.err THEN [m |-> m1, keys |-> <<>>]
  ELSE MVisitLoop(b, [m1 EXCEPT !.pos = m1.start, !.index = 0], <<>>)

\* the destructor: ResetKey, skip what was not read
RECURSIVE MSkipRest(_, _)
MSkipRest(b, m) ==
  IF m.err \/ m.index >= m.size THEN m
  ELSE LET rk == KeyAt(b, m.pos) e == IF rk.ok THEN ValueEnd(b, rk.p) ELSE 0 IN
       IF e = 0 THEN Err(m) ELSE MSkipRest(b, [m EXCEPT !.pos = e, !.index = @ + 1])
MDtor(b, m) == MSkipRest(b, MResetKey(b, m))

\* ---- the structural invariant of the members (checked on the model and, through the traces, on the real class) ----
\* offset of pair i (0-based) of the map whose first pair starts at `start`
RECURSIVE PairOffset(_, _, _)
PairOffset(b, start, i) ==
  IF i = 0 THEN start
  ELSE LET p == PairOffset(b, start, i - 1)
           rk == IF p = 0 THEN [ok |-> FALSE, p |-> 0] ELSE KeyAt(b, p) IN
       IF ~rk.ok THEN 0 ELSE ValueEnd(b, rk.p)

CursorConsistent(b, m) ==
  m.err \/ ( /\ m.index <= m.size
            /\ IF m.ck THEN /\ m.index < m.size
                            /\ LET p == PairOffset(b, m.start, m.index) IN p # 0 /\ KeyAt(b, p).ok /\ KeyAt(b, p).p = m.pos /\ KeyAt(b, p).key = m.key
               ELSE m.pos = PairOffset(b, m.start, m.index) )
=============================================================================
