---------------------------- MODULE Trace_SaveXml ----------------------------
(* TLC as the independent XML parser of documents produced by the real archive (C08 / C01 / C10). *)
EXTENDS SaveScript, XmlFormat, Json, IOUtils
VARIABLE dummy
Traces == ndJsonDeserialize(IOEnv.TRACE)

RECURSIVE HasCr(_)
HasCr(a) == (\E i \in 1..Len(a[4]) : a[4][i] = 13) \/ (\E i \in 1..Len(a[3]) : HasCr(a[3][i]))

TextVerdict(bytes, enc, bom, tree, what) ==
  LET d == DecodeText(bytes, enc, bom) IN
  IF ~d[1] THEN <<"bad", what \o " output is not well-formed " \o enc \o (IF bom THEN " with BOM" ELSE " without BOM")>>
  ELSE LET r == ParseXml(d[2]) IN
       IF ~r.ok THEN <<"bad", what \o " output is not a well-formed XML document">>
       ELSE IF SameTree(r.el, tree) THEN <<"ok", "">>
       \* named deviation: a carriage return in character data is written literally, so every XML parser normalises it to a line feed
       ELSE IF HasCr(tree) /\ SameTree(r.el, NormTree(tree)) THEN <<"dev", "Dev_XmlCrNotEscaped">>
       ELSE <<"bad", what \o " output denotes different data">>

Verdict(t) ==
  LET tree == XmlDoc(DocOf(TreeOfRoot(t.root))) IN
  IF t.excmem # <<"none">> \/ t.excstream # <<"none">> THEN "bad:save raised an exception"
  ELSE LET vm == TextVerdict(t.mem, "utf8", FALSE, tree, "memory")
           vs == TextVerdict(t.stream, t.opt.enc, t.opt.bom, tree, "stream")
           Str(x) == IF x[1] = "ok" THEN "ok" ELSE x[1] \o ":" \o x[2] IN
       IF vm[1] = "bad" THEN Str(vm) ELSE IF vs[1] = "bad" THEN Str(vs)
       ELSE IF t.opt.enc = "utf8" /\ ~t.opt.bom /\ t.stream # t.mem THEN "bad:stream output (UTF-8, no BOM) differs from memory output"
       ELSE IF vm[1] # "ok" THEN Str(vm) ELSE Str(vs)

ASSUME \A i \in 1..Len(Traces) :
          LET v == Verdict(Traces[i]) IN v = "ok" \/ PrintT(<<"BAD", ToJson([id |-> Traces[i].id, why |-> v])>>)
ASSUME PrintT(<<"CHECKED", ToJson([n |-> Len(Traces)])>>)
Init == dummy = 0
Next == UNCHANGED dummy
=============================================================================
