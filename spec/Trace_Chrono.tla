---------------------------- MODULE Trace_Chrono ----------------------------
(* C14: judges observations of single instants recorded by harness/chrono_harness.cpp (modes "list" and       *)
(* "random").  Record: [id, k ("tp" | "dur" | "time_t"), u, r, c (decimal string), cby (the 8 bytes of the     *)
(* count, big endian two's complement), text, tc (its bytes), t16/t32/tw (code units of the wide forms),       *)
(* back (text parsed back), ts (<<seconds, nanoseconds>> of CBinTimestamp), tsback, mp (MsgPack archive round   *)
(* trip of a member, string entry points), mps (the same through std::ostream / std::istream), js / jstext       *)
(* (time_t only: CTimeRef member in a JSON archive)]  or  [id, crash].                                                                *)
(* Required (property C14):                                                                                   *)
(*   text   = IsoPrint(c, u) for time points / time_t; for durations: the text is in the strict duration     *)
(*            grammar and denotes exactly c ticks (D6 in Chrono.tla)                                          *)
(*   wide   the char16_t / char32_t / wchar_t forms have the same characters                                  *)
(*   back   = c                                                                                               *)
(*   ts     = TsSplit(c, u) (seconds, 0..999999999 ns) when the seconds fit int64, else an exception          *)
(*   tsback = c, mp = c, mps = c  (when the timestamp is representable; else any exception, never a value)    *)
(*   js = c and jstext = {"v":"<IsoPrint(c)>"}   (time_t via CTimeRef in a text archive)                       *)
EXTENDS Chrono, Json, IOUtils

VARIABLE dummy

Traces == ndJsonDeserialize(IOEnv.TRACE)

IsExc(s) == s = "I" \/ s = "O" \/ s = "-"

\* the characters of a string of decimal digits with an optional sign, as logged by the harness
V(c) == "V:" \o ToDec(c)

-----------------------------------------------------------------------------
(* Named deviations of the unchanged tree                                    *)

\* Dev_NegativeYearWidth: the year is printed with snprintf("%04lld"), which counts the sign: years -1 .. -999 get
\* three digits ("-001-12-31T..") instead of the documented four.
NegYearVariant(c, u) ==
  LET sp == SplitSeconds(c, u)
      dd == DivModSmall(sp.q, 86400)
      civ == CivilFromDaysBig(dd.q)
      y3 == LET n == MToNat(civ.y.mag) IN IF n < 10 THEN "00" \o ToString(n) ELSE IF n < 100 THEN "0" \o ToString(n) ELSE ToString(n)
  IN "-" \o y3 \o "-" \o P2Tab[civ.m] \o "-" \o P2Tab[civ.d] \o "T" \o P2Tab[dd.r \div 3600] \o ":" \o
     P2Tab[(dd.r % 3600) \div 60] \o ":" \o P2Tab[dd.r % 60] \o FracStr(sp.r, FracDigits(u)) \o "Z"
Dev_NegativeYearWidth(c, u, text) ==
  LET y == IsoYear(c, u) IN y.neg /\ Len(y.mag) = 1 /\ y.mag[1] <= 999 /\ text = NegYearVariant(c, u)

\* Dev_IsoPrintBufferOverflow: the text is assembled in a 32 byte buffer; a year of 16 or more digits (time points
\* counted in hours or days near the 64-bit limits) does not fit: runtime_error("Internal error") or, beyond that,
\* writes past the buffer (garbage text, or the run dies).  Also days + 719468 overflows int64 at the very top.
Dev_IsoPrintBufferOverflow(c, u) == Len(IsoPrintCodes(c, u)) >= 33

\* Dev_AccumulationOrder / Dev_DaysFromCivilEdge (see Trace_ChronoParse): residues after the fixes b4c84ea / 0dda6ff.
\* The first is guarded by the parser's own partial sums (time of day, + fraction) not fitting the representation, the
\* second by an unsigned day count above 2^63: with the 64/32-bit signed representations that C14 prints neither guard
\* holds, so every rejected reparse there is a plain violation.
TicksPerDay(u) ==
  CASE u = "ns" -> <<86400, 1000, 1000, 1000>> [] u = "us" -> <<86400, 1000, 1000>> [] u = "ms" -> <<86400, 1000>>
    [] u = "s" -> <<86400>> [] u = "min" -> <<1440>> [] u = "h" -> <<24>> [] OTHER -> <<>>
\* (the library's own text carries a fraction exactly for the sub-second units)
Dev_AccumulationOrder(c, u, r, back) ==
  LET dm == DivModSmall(SplitSeconds(c, u).q, 86400)
      bk == Lt(dm.q, Zero) /\ (dm.r # 0 \/ SubSecond(u))
      timeSecs == IF bk THEN dm.r - 86400 ELSE dm.r
      s1 == IF SubSecond(u) THEN ShiftDec(FromInt(timeSecs), FracDigits(u)) ELSE DivModSmall(FromInt(timeSecs), UnitSeconds(u)).q
      s2 == Sub(c, MulChain(IF bk THEN AddSmall(dm.q, 1) ELSE dm.q, TicksPerDay(u)))
  IN back = "O" /\ (~Fits(s1, r) \/ ~Fits(s2, r))
Dev_DaysFromCivilEdge(c, u, r, back) ==
  back = "O" /\ ~RepSigned(r) /\ Gt(DivModSmall(SplitSeconds(c, u).q, 86400).q, I64Max)

\* Dev_NegativeNanoseconds: time_point/duration -> CBinTimestamp truncates the seconds toward zero, so a negative value
\* with a sub-second part gets seconds+1 and NEGATIVE nanoseconds (the MsgPack timestamp formats have an unsigned
\* nanosecond field).  Own round trips through CBinTimestamp still work; the archive round trip is corrupted whenever
\* the writer picks timestamp 32/64 (seconds field 0, i.e. values in (-1 s, 0)).
NegNsCase(c, u) == c.neg /\ ~IsZero(TsSplit(c, u).ns)
Dev_NegativeNanosecondsSplit(c, u, ts) ==
  NegNsCase(c, u) /\ LET s == TsSplit(c, u) IN ts = <<ToDec(AddSmall(s.sec, 1)), ToDec(Sub(s.ns, Pow10(9)))>>

\* Dev_DurationMinAbs: the duration printer takes std::abs of every part and special-cases LLONG_MIN only; for a
\* 32-bit day count equal to INT32_MIN the negation overflows and 2^64 - 2^31 days are printed.
Dev_DurationMinAbs(k, c, u, r, text) == k = "dur" /\ u = "d" /\ r = "i32" /\ c = I32Min /\ text = "-P18446744071562067968D"

-----------------------------------------------------------------------------
Bad(why, dev, obs, exp) == [why |-> why, dev |-> dev, obs |-> obs, exp |-> exp]

Verdicts(e) ==
  IF "crash" \in DOMAIN e THEN <<Bad("crash", "", ToString(e.crash), "")>>
  ELSE
  LET c == FromBytesSignedBE(e.cby)
      u == e.u
      r == e.r
      isTp == e.k # "dur"
      expText == IsoPrint(c, u)
      textOK == IF isTp THEN e.text = expText ELSE DurTextDenotes(e.tc, c, u)
      textDev == IF ~isTp THEN (IF Dev_DurationMinAbs(e.k, c, u, r, e.text) THEN "Dev_DurationMinAbs" ELSE "")
                 ELSE IF Dev_IsoPrintBufferOverflow(c, u) THEN "Dev_IsoPrintBufferOverflow"
                 ELSE IF Dev_NegativeYearWidth(c, u, e.text) THEN "Dev_NegativeYearWidth" ELSE ""
      ts == TsSplit(c, u)
      tsFits == Fits(ts.sec, "i64")
      expTs == <<ToDec(ts.sec), ToDec(ts.ns)>>
      negNs == e.k # "time_t" /\ Dev_NegativeNanosecondsSplit(c, u, e.ts)
      F1 == IF ToDec(c) # e.c THEN <<Bad("count", "", e.c, ToDec(c))>> ELSE <<>>
      F2 == IF textOK THEN <<>> ELSE <<Bad("text", textDev, e.text, IF isTp THEN expText ELSE "a strict duration text denoting the count")>>
      \* (when the char form already deviates - garbage after a buffer overrun - the wide forms are not compared)
      F3 == IF (textOK \/ textDev = "Dev_NegativeYearWidth") => (e.tc = e.t16 /\ e.tc = e.t32 /\ e.tc = e.tw) THEN <<>> ELSE <<Bad("wide", "", "", "")>>
      \* the reparse is only judged when the text itself was right (or deviates only in the year width, which the parser accepts)
      F4 == IF ~(textOK \/ textDev = "Dev_NegativeYearWidth") \/ e.back = V(c) THEN <<>>
            ELSE <<Bad("back", IF isTp /\ Dev_AccumulationOrder(c, u, r, e.back) THEN "Dev_AccumulationOrder"
                               ELSE IF isTp /\ Dev_DaysFromCivilEdge(c, u, r, e.back) THEN "Dev_DaysFromCivilEdge" ELSE "", e.back, V(c))>>
      F5 == IF tsFits THEN (IF e.ts = expTs THEN <<>> ELSE <<Bad("ts-split", IF negNs THEN "Dev_NegativeNanoseconds" ELSE "", ToString(e.ts), ToString(expTs))>>)
            ELSE (IF IsExc(e.ts[1]) THEN <<>> ELSE <<Bad("ts-split", "", ToString(e.ts), "exception: seconds exceed int64")>>)
      F6 == IF tsFits THEN (IF e.tsback = V(c) THEN <<>> ELSE <<Bad("ts-back", "", e.tsback, V(c))>>)
            ELSE <<>>
      F7 == IF tsFits THEN (IF e.mp = V(c) THEN <<>>
                            ELSE <<Bad("msgpack", IF e.k # "time_t" /\ NegNsCase(c, u) THEN "Dev_NegativeNanoseconds" ELSE "", e.mp, V(c))>>)
            ELSE (IF e.mpk = "V" THEN <<Bad("msgpack", "", e.mp, "exception: seconds exceed int64")>> ELSE <<>>)
      \* the same value saved through the std::ostream writer and loaded through the std::istream reader
      F8 == IF tsFits THEN (IF e.mps = V(c) THEN <<>> ELSE <<Bad("msgpack-stream", "", e.mps \o " bytes " \o e.mpshex, V(c))>>)
            ELSE (IF e.mpsk = "V" THEN <<Bad("msgpack-stream", "", e.mps, "exception: seconds exceed int64")>> ELSE <<>>)
      \* time_t through CTimeRef in a text archive (JSON): written as the ISO-8601 text of the instant, loaded back unchanged
      F9 == IF e.k # "time_t" THEN <<>>
            ELSE (IF e.jstext = "{\"v\":\"" \o expText \o "\"}" THEN <<>> ELSE <<Bad("json-text", textDev, e.jstext, "{\"v\":\"" \o expText \o "\"}")>>)
                 \o (IF e.js = V(c) THEN <<>> ELSE <<Bad("json-back", "", e.js, V(c))>>)
  IN F1 \o F2 \o F3 \o F4 \o F5 \o F6 \o F7 \o F8 \o F9

\* Rows of the table legs that differ from the expected table: [id, mode ("days" | "secs"), ur ("all" | "core"), row].
\* row = <<d, entries>> or <<d, sod, entries>>; entry = <<>> or <<count, text, back, ts.seconds, ts.nanoseconds, tsback>>.
\* The count is recomputed from the day number (never read from the log).
URAll  == << <<"d", "i64">>, <<"d", "i32">>, <<"h", "i64">>, <<"h", "i32">>, <<"min", "i64">>, <<"min", "i32">>,
             <<"s", "i64">>, <<"s", "i32">>, <<"ms", "i64">>, <<"us", "i64">>, <<"ns", "i64">> >>
URCore == << <<"d", "i64">>, <<"d", "i32">>, <<"s", "i64">>, <<"ms", "i64">> >>
URSec  == << <<"s", "i64">>, <<"s", "i32">>, <<"ms", "i64">>, <<"us", "i64">>, <<"ns", "i64">> >>
PerSecondChain(u) == CASE u = "s" -> <<>> [] u = "ms" -> <<1000>> [] u = "us" -> <<1000, 1000>> [] OTHER -> <<1000, 1000, 1000>>
RowVerdicts(e) ==
  LET row == e.row
      isSec == e.mode = "secs"
      urs == IF isSec THEN URSec ELSE IF e.ur = "core" THEN URCore ELSE URAll
      ents == row[Len(row)]
      Entry(j) ==
        LET u == urs[j][1] r == urs[j][2] o == ents[j]
            c == IF isSec THEN MulChain(AddSmall(MulSmall(FromInt(row[1]), 86400), row[2]), PerSecondChain(u))
                 ELSE MulChain(FromInt(row[1]), TicksPerDay(u))
            tgt == u \o ":" \o r
        IN IF ~Fits(c, r) THEN (IF o = <<>> THEN <<>> ELSE <<[tgt |-> tgt, c |-> ToDec(c), v |-> Bad("shape", "", "entry for an instant outside the representation", "")]>>)
           ELSE IF Len(o) # 6 THEN <<[tgt |-> tgt, c |-> ToDec(c), v |-> Bad("shape", "", "", "")]>>
           ELSE LET expText == IsoPrint(c, u)
                    textOK == o[2] = expText
                    textDev == IF Dev_IsoPrintBufferOverflow(c, u) THEN "Dev_IsoPrintBufferOverflow"
                               ELSE IF Dev_NegativeYearWidth(c, u, o[2]) THEN "Dev_NegativeYearWidth" ELSE ""
                    ts == TsSplit(c, u)
                    expTs == <<ToDec(ts.sec), ToDec(ts.ns)>>
                    W(b) == [tgt |-> tgt, c |-> ToDec(c), v |-> b]
                IN (IF o[1] = ToDec(c) THEN <<>> ELSE <<W(Bad("count", "", o[1], ToDec(c)))>>)
                   \o (IF textOK THEN <<>> ELSE <<W(Bad("text", textDev, o[2], expText))>>)
                   \o (IF ~(textOK \/ textDev = "Dev_NegativeYearWidth") \/ o[3] = V(c) THEN <<>>
                       ELSE <<W(Bad("back", IF Dev_AccumulationOrder(c, u, r, o[3]) THEN "Dev_AccumulationOrder"
                                            ELSE IF Dev_DaysFromCivilEdge(c, u, r, o[3]) THEN "Dev_DaysFromCivilEdge" ELSE "", o[3], V(c)))>>)
                   \o (IF <<o[4], o[5]>> = expTs THEN <<>>
                       ELSE <<W(Bad("ts-split", IF Dev_NegativeNanosecondsSplit(c, u, <<o[4], o[5]>>) THEN "Dev_NegativeNanoseconds" ELSE "",
                                    ToString(<<o[4], o[5]>>), ToString(expTs)))>>)
                   \o (IF o[6] = V(c) THEN <<>> ELSE <<W(Bad("ts-back", "", o[6], V(c)))>>)
  IN FoldLeft(LAMBDA acc, j : acc \o Entry(j), <<>>, [j \in 1..Len(urs) |-> j])

IsRow(e) == "row" \in DOMAIN e
ASSUME \A i \in 1..Len(Traces) :
          IsRow(Traces[i]) =>
             LET vs == RowVerdicts(Traces[i]) IN
             \A j \in 1..Len(vs) :
                PrintT(<<"BAD", ToJson([id |-> Traces[i].id, tgt |-> vs[j].tgt, c |-> vs[j].c, why |-> vs[j].v.why, dev |-> vs[j].v.dev,
                                        obs |-> vs[j].v.obs, exp |-> vs[j].v.exp])>>)
ASSUME \A i \in 1..Len(Traces) :
          IsRow(Traces[i]) \/
          LET vs == Verdicts(Traces[i]) IN
          \A j \in 1..Len(vs) :
             PrintT(<<"BAD", ToJson([id |-> Traces[i].id, why |-> vs[j].why, dev |-> vs[j].dev, obs |-> vs[j].obs, exp |-> vs[j].exp])>>)
ASSUME PrintT(<<"CHECKED", ToJson([n |-> Len(Traces)])>>)

Init == dummy = 0
Next == UNCHANGED dummy
=============================================================================
