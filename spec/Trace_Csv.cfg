INIT Init
NEXT Next
