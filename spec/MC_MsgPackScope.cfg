SPECIFICATION Spec
CONSTANTS
  MaxPairs = 2
  MaxOps = 3
  Widths = {0, 4}
INVARIANTS NeverErr Cursor RequestAgrees VisitAgrees DtorAtEnd
CHECK_DEADLOCK FALSE
