SPECIFICATION Spec
INVARIANT RoundTrip
