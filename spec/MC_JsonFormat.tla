---------------------------- MODULE MC_JsonFormat ----------------------------
(* Self-consistency of the JSON Layer-1 spec: every rendering of every corpus    *)
(* value in every style and encoding parses back (strictly) to a JSON value that *)
(* denotes the original; a list of ill-formed texts is rejected.                 *)
EXTENDS JsonFormat, JsonCorpus

VARIABLES v, style, enc, bom
vars == <<v, style, enc, bom>>

Encs == {"utf8", "utf16le", "utf16be", "utf32le", "utf32be"}
Init == v \in JCorpus /\ style = [ws |-> 0, esc |-> 0, order |-> 0] /\ enc = "utf8" /\ bom = FALSE
Next == /\ \E s \in Styles, e \in Encs, b \in BOOLEAN : style' = s /\ enc' = e /\ bom' = b
        /\ UNCHANGED v
Spec == Init /\ [][Next]_vars

RoundTrip ==
  LET text == Render(v, style, 0)
      bytes == EncodeText(text, enc, bom)
      d == DecodeText(bytes, enc, bom)
      r == ParseJson(d[2])
  IN d[1] /\ d[2] = text /\ r.ok /\ Denotes(r.v, v)

T(s) == s
BadTexts == { <<91, 49, 44, 93>>, <<48, 49>>, <<34, 10, 34>>, <<34, 92, 117, 100, 56, 48, 48, 34>>, <<123, 34, 97, 34, 58, 49, 44, 125>>,
              <<49, 46>>, <<45>>, <<91, 49, 93, 93>>, <<110, 117, 108>>, <<34, 92, 120, 34>>, <<49, 101>>, <<>> , <<123, 97, 58, 49, 125>> }
ASSUME \A t \in BadTexts : ~ParseJson(t).ok
=============================================================================
