------------------------------- MODULE CsvText -------------------------------
(***************************************************************************)
(* Encoded text <-> code points, as far as the CSV check needs it: the five *)
(* encoding schemes of the archive's streams (UTF-8, UTF-16LE/BE,           *)
(* UTF-32LE/BE) with or without a byte-order mark.  Strict decoders (any    *)
(* ill-formed input gives ok = FALSE); encoders for scalar values only.     *)
(* Streaming folds, no deep recursion.                                      *)
(***************************************************************************)
EXTENDS Naturals, Integers, Sequences, SequencesExt

Encodings == {"utf8", "utf16le", "utf16be", "utf32le", "utf32be"}

Bom(enc) ==
  CASE enc = "utf8"    -> <<239, 187, 191>>
    [] enc = "utf16le" -> <<255, 254>>
    [] enc = "utf16be" -> <<254, 255>>
    [] enc = "utf32le" -> <<255, 254, 0, 0>>
    [] enc = "utf32be" -> <<0, 0, 254, 255>>

IsScalar(c) == c >= 0 /\ c <= 1114111 /\ ~(c >= 55296 /\ c <= 57343)

-----------------------------------------------------------------------------
Utf8Of(c) ==
  IF c < 128 THEN <<c>>
  ELSE IF c < 2048 THEN <<192 + (c \div 64), 128 + (c % 64)>>
  ELSE IF c < 65536 THEN <<224 + (c \div 4096), 128 + ((c \div 64) % 64), 128 + (c % 64)>>
  ELSE <<240 + (c \div 262144), 128 + ((c \div 4096) % 64), 128 + ((c \div 64) % 64), 128 + (c % 64)>>

Units16Of(c) == IF c < 65536 THEN <<c>> ELSE <<55296 + ((c - 65536) \div 1024), 56320 + ((c - 65536) % 1024)>>

Bytes2(u, be) == IF be THEN <<u \div 256, u % 256>> ELSE <<u % 256, u \div 256>>
Bytes4(c, be) == IF be THEN <<0, c \div 65536, (c \div 256) % 256, c % 256>>
                 ELSE <<c % 256, (c \div 256) % 256, c \div 65536, 0>>

Utf8Enc(cps) == FlattenSeq([i \in 1..Len(cps) |-> Utf8Of(cps[i])])

EncodeText(cps, enc, bom) ==
  (IF bom THEN Bom(enc) ELSE <<>>) \o
  (CASE enc = "utf8" -> Utf8Enc(cps)
     [] enc \in {"utf16le", "utf16be"} ->
          FlattenSeq([i \in 1..Len(cps) |->
             LET u == Units16Of(cps[i]) IN FlattenSeq([k \in 1..Len(u) |-> Bytes2(u[k], enc = "utf16be")])])
     [] enc \in {"utf32le", "utf32be"} ->
          FlattenSeq([i \in 1..Len(cps) |-> Bytes4(cps[i], enc = "utf32be")]))

-----------------------------------------------------------------------------
\* UTF-8: d = [n (continuation bytes still expected), cp, min (smallest value the form may denote), out, ok]
U8Step(d, b) ==
  IF ~d.ok THEN d
  ELSE IF d.n = 0 THEN
         IF b < 128 THEN [d EXCEPT !.out = Append(d.out, b)]
         ELSE IF b >= 194 /\ b < 224 THEN [d EXCEPT !.n = 1, !.cp = b - 192, !.min = 128]
         ELSE IF b >= 224 /\ b < 240 THEN [d EXCEPT !.n = 2, !.cp = b - 224, !.min = 2048]
         ELSE IF b >= 240 /\ b < 245 THEN [d EXCEPT !.n = 3, !.cp = b - 240, !.min = 65536]
         ELSE [d EXCEPT !.ok = FALSE]
  ELSE IF b >= 128 /\ b < 192 THEN
         LET c == (d.cp * 64) + (b - 128) IN
         IF d.n = 1 THEN (IF c >= d.min /\ IsScalar(c) THEN [d EXCEPT !.n = 0, !.out = Append(d.out, c)]
                          ELSE [d EXCEPT !.ok = FALSE])
         ELSE [d EXCEPT !.n = d.n - 1, !.cp = c]
  ELSE [d EXCEPT !.ok = FALSE]

Utf8Dec(bytes) ==
  LET d == FoldLeft(U8Step, [n |-> 0, cp |-> 0, min |-> 0, out |-> <<>>, ok |-> TRUE], bytes)
  IN [ok |-> d.ok /\ d.n = 0, cps |-> d.out]

\* UTF-16 over units: d = [hi (pending high surrogate or -1), out, ok]
U16Step(d, u) ==
  IF ~d.ok THEN d
  ELSE IF d.hi >= 0 THEN
         (IF u >= 56320 /\ u <= 57343
          THEN [d EXCEPT !.hi = -1, !.out = Append(d.out, 65536 + ((d.hi - 55296) * 1024) + (u - 56320))]
          ELSE [d EXCEPT !.ok = FALSE])
  ELSE IF u >= 55296 /\ u <= 56319 THEN [d EXCEPT !.hi = u]
  ELSE IF u >= 56320 /\ u <= 57343 THEN [d EXCEPT !.ok = FALSE]
  ELSE [d EXCEPT !.out = Append(d.out, u)]

Utf16Dec(bytes, be) ==
  IF (Len(bytes) % 2) # 0 THEN [ok |-> FALSE, cps |-> <<>>]
  ELSE LET units == [i \in 1..(Len(bytes) \div 2) |->
                        IF be THEN (bytes[(2 * i) - 1] * 256) + bytes[2 * i] ELSE (bytes[2 * i] * 256) + bytes[(2 * i) - 1]]
           d == FoldLeft(U16Step, [hi |-> -1, out |-> <<>>, ok |-> TRUE], units)
       IN [ok |-> d.ok /\ d.hi = -1, cps |-> d.out]

Utf32Dec(bytes, be) ==
  IF (Len(bytes) % 4) # 0 THEN [ok |-> FALSE, cps |-> <<>>]
  ELSE LET n == Len(bytes) \div 4
           B(i, k) == bytes[(4 * (i - 1)) + (IF be THEN k ELSE 5 - k)]     \* k = 1 most significant
           Ok(i) == B(i, 1) = 0 /\ B(i, 2) <= 16 /\ IsScalar((B(i, 2) * 65536) + (B(i, 3) * 256) + B(i, 4))
       IN IF \A i \in 1..n : Ok(i)
          THEN [ok |-> TRUE, cps |-> [i \in 1..n |-> (B(i, 2) * 65536) + (B(i, 3) * 256) + B(i, 4)]]
          ELSE [ok |-> FALSE, cps |-> <<>>]

HasPrefix(s, p) == Len(s) >= Len(p) /\ SubSeq(s, 1, Len(p)) = p

\* bom = TRUE: the byte-order mark must be present and is removed
DecodeText(bytes, enc, bom) ==
  IF bom /\ ~HasPrefix(bytes, Bom(enc)) THEN [ok |-> FALSE, cps |-> <<>>]
  ELSE LET body == IF bom THEN SubSeq(bytes, Len(Bom(enc)) + 1, Len(bytes)) ELSE bytes IN
       CASE enc = "utf8"    -> Utf8Dec(body)
         [] enc = "utf16le" -> Utf16Dec(body, FALSE)
         [] enc = "utf16be" -> Utf16Dec(body, TRUE)
         [] enc = "utf32le" -> Utf32Dec(body, FALSE)
         [] enc = "utf32be" -> Utf32Dec(body, TRUE)
=============================================================================
