INIT Init
NEXT Next
