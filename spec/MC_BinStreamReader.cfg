SPECIFICATION Spec
CONSTANTS
  CHUNK = 4
  MAXLEN = 9
  MAXOPS = 6
  SolidSizes = {1, 2, 3, 5}
  ChunkSizes = {1, 3, 6}
  Fix = "clear"
  SeekKinds = {TRUE}
  KeepHist = FALSE
  TolerateNonSeekable = TRUE
INVARIANTS ResultsAgree PositionAgrees IsEndAgrees WellFormed
