---------------------------- MODULE MC_BSBigInt ----------------------------
(* Exhaustive self-check of Layer 0 (BSBigInt) within small stated bounds.                         *)
(*  x, y : native TLC integers driven through Add/Mul/Div/Neg steps; bx, by are the same values    *)
(*         computed *only* with BSBigInt operations: the invariants compare both worlds.           *)
(*  g, h : genuinely wide values (beyond 2^31, up to MaxDigits digits) that have no native twin;   *)
(*         the invariants are the algebraic laws the Chrono / Numeric specifications rely on.      *)
EXTENDS BSBigInt

CONSTANTS Deltas,      \* native addends
          Factors,     \* small multipliers / divisors (positive)
          Limit,       \* |x| stays below Limit (native products must not overflow)
          MaxSteps,
          BigFactors,  \* multipliers for the wide values
          MaxDigits

VARIABLES x, y, bx, by, g, h, n
vars == <<x, y, bx, by, g, h, n>>

AbsI(a) == IF a < 0 THEN 0 - a ELSE a
SgnI(a) == IF a < 0 THEN -1 ELSE IF a > 0 THEN 1 ELSE 0
\* floor division of native integers by positive k (TLC's \div and % are already floor/modulo)
Init == x = 0 /\ y = 0 /\ bx = Zero /\ by = Zero /\ g = One /\ h = Zero /\ n = 0

Shift == n < MaxSteps /\ y' = x /\ by' = bx /\ n' = n + 1

AddStep == \E d \in Deltas : AbsI(x + d) < Limit /\ x' = x + d /\ bx' = Add(bx, FromInt(d)) /\ Shift /\ UNCHANGED <<g, h>>
SubStep == \E d \in Deltas : AbsI(x - d) < Limit /\ x' = x - d /\ bx' = Sub(bx, FromInt(d)) /\ Shift /\ UNCHANGED <<g, h>>
MulStep == \E k \in Factors : AbsI(x) < Limit \div k /\ x' = x * k /\ bx' = MulSmall(bx, k) /\ Shift /\ UNCHANGED <<g, h>>
NegMulStep == \E k \in Factors : AbsI(x) < Limit \div k /\ x' = x * (0 - k) /\ bx' = MulSmall(bx, 0 - k) /\ Shift /\ UNCHANGED <<g, h>>
DivStep == \E k \in Factors : x' = x \div k /\ bx' = DivModSmall(bx, k).q /\ Shift /\ UNCHANGED <<g, h>>
NegStep == x' = 0 - x /\ bx' = Neg(bx) /\ Shift /\ UNCHANGED <<g, h>>
BigMul == n < MaxSteps /\ \E k \in BigFactors : MNumDigits(g.mag) < MaxDigits /\ g' = MulSmall(g, k) /\ h' = g /\ n' = n + 1 /\ UNCHANGED <<x, y, bx, by>>
BigAdd == n < MaxSteps /\ \E d \in Deltas : g' = Add(g, FromInt(d)) /\ h' = g /\ n' = n + 1 /\ UNCHANGED <<x, y, bx, by>>
BigNeg == n < MaxSteps /\ g' = Neg(g) /\ h' = g /\ n' = n + 1 /\ UNCHANGED <<x, y, bx, by>>
BigSq  == n < MaxSteps /\ MNumDigits(g.mag) < MaxDigits /\ g' = Mul(g, h) /\ h' = g /\ n' = n + 1 /\ UNCHANGED <<x, y, bx, by>>

Next == AddStep \/ SubStep \/ MulStep \/ NegMulStep \/ DivStep \/ NegStep \/ BigMul \/ BigAdd \/ BigNeg \/ BigSq
Spec == Init /\ [][Next]_vars

-----------------------------------------------------------------------------
WellFormed(b) == /\ \A i \in 1..Len(b.mag) : b.mag[i] \in 0..(Base - 1)
                 /\ (b.mag # <<>> => b.mag[Len(b.mag)] # 0)
                 /\ (b.mag = <<>> => ~b.neg)

\* native twin
Twin       == bx = FromInt(x) /\ by = FromInt(y) /\ WellFormed(bx) /\ FitsInt(bx) /\ ToInt(bx) = x
TwinCmp    == Cmp(bx, by) = SgnI(x - y) /\ (Lt(bx, by) <=> x < y) /\ (Le(bx, by) <=> x <= y)
TwinAddSub == Add(bx, by) = FromInt(x + y) /\ Sub(bx, by) = FromInt(x - y)
TwinMul    == (AbsI(x) < 40000 /\ AbsI(y) < 40000) => Mul(bx, by) = FromInt(x * y)
TwinDec    == ToDec(bx) = ToString(x) /\ FromDigits(x < 0, ToDigits(bx)) = bx
TwinDiv    == \A k \in Factors : LET d == DivModSmall(bx, k) t == DivTruncSmall(bx, k) IN
                 /\ d.q = FromInt(x \div k) /\ d.r = (x % k)
                 /\ ToInt(t.q) * k + t.r = x /\ SgnI(t.r) \in {0, SgnI(x)} /\ AbsI(t.r) < k
TwinShift  == AbsI(x) < 200000 => ShiftDec(bx, 3) = FromInt(x * 1000)

\* wide values: laws
BigWF      == WellFormed(g) /\ WellFormed(h)
BigAddSub  == Sub(Add(g, h), h) = g /\ Add(g, h) = Add(h, g) /\ Sub(g, g) = Zero /\ Add(g, Neg(g)) = Zero
BigMulDiv  == \A k \in BigFactors : LET p == MulSmall(g, k) d == DivModSmall(p, k) e == DivModSmall(AddSmall(p, k - 1), k) IN
                 /\ d.q = g /\ d.r = 0 /\ e.q = g /\ e.r = k - 1
                 /\ Mul(g, FromInt(k)) = p /\ Mul(FromInt(k), g) = p
BigDec     == FromDigits(g.neg, ToDigits(g)) = g /\ Len(ToDigits(g)) = Max2(1, MNumDigits(g.mag))
BigCmp     == /\ Cmp(g, g) = 0
              /\ Cmp(g, h) = 0 - Cmp(h, g)
              /\ Cmp(g, h) = Sign(Sub(g, h))
              /\ Lt(g, AddSmall(g, 1)) /\ Gt(g, AddSmall(g, -1))
BigChain   == LET c == DivModChain(g, <<1000, 1000, 1000, 86400>>) IN
              Add(MulChain(c.q, <<1000, 1000, 1000, 86400>>), c.r) = g /\ Ge(c.r, Zero)
BigDistrib == Mul(g, Add(h, One)) = Add(Mul(g, h), g) /\ Mul(g, h) = Mul(h, g)
BigShift   == ShiftDec(g, 7) = MulChain(g, <<10000, 1000>>) /\ ShiftDec(g, 4) = MulSmall(g, 10000)

\* constants used by the other specifications, against their published decimal forms
ASSUME ToDec(IntMax(64)) = "9223372036854775807" /\ ToDec(IntMin(64)) = "-9223372036854775808"
ASSUME ToDec(UIntMax(64)) = "18446744073709551615" /\ ToDec(IntMax(32)) = "2147483647" /\ ToDec(IntMin(8)) = "-128"
ASSUME LET d == DivModSmall(IntMax(64), 86400) IN ToDec(d.q) = "106751991167300" /\ d.r = 55807
ASSUME LET d == DivModSmall(IntMin(64), 86400) IN ToDec(d.q) = "-106751991167301" /\ d.r = 30592
ASSUME FromBytesSignedBE(<<255, 255, 255, 255, 255, 255, 255, 255>>) = FromInt(-1)
ASSUME FromBytesSignedBE(<<128, 0, 0, 0, 0, 0, 0, 0>>) = IntMin(64)
ASSUME FromBytesSignedBE(<<127, 255, 255, 255, 255, 255, 255, 255>>) = IntMax(64)
ASSUME FromBytesUnsignedBE(<<255, 255, 255, 255, 255, 255, 255, 255>>) = UIntMax(64)
ASSUME ToDec(Pow2(100)) = "1267650600228229401496703205376"
ASSUME ToDec(Mk(FALSE, MPow5(27))) = "7450580596923828125"
ASSUME ToDec(Pow10(19)) = "10000000000000000000" /\ ToDec(Pow10(0)) = "1"
ASSUME FromDigits(TRUE, <<0, 0, 0>>) = Zero /\ ToDec(FromDigits(TRUE, <<0, 1, 2, 3, 4, 5>>)) = "-12345"
=============================================================================
