---------------------------- MODULE MC_ScopeUnwind ----------------------------
(* M: code-shaped session machine of a load / save call.  Frames carry the      *)
(* fallible work their destructor still has to do (unread members to skip, the  *)
(* CSV row to finish).  A fault budget makes the k-th consumption fail; the     *)
(* user's Serialize() may throw at any point.  TLC checks, for every behaviour: *)
(*   - the emitted events are accepted by the protocol A (ScopeUnwind),         *)
(*   - the process is never terminated (DtorPolicy = "park": the tree),         *)
(*   - every failure ends the call with an exception.                           *)
(* With DtorPolicy = "throw" (the pinned tree before fix dbe1f4f / ba30d1a)     *)
(* NeverTerminated has a counterexample: expected, used as a self-test.         *)
EXTENDS ScopeUnwind

CONSTANTS MaxDepth, MaxItems, MaxBudget, DtorPolicy

VARIABLES stk,        \* frames [id, pending]
          evs,        \* observable events emitted so far
          mode,       \* "run" | "unwind" | "ended" | "terminated"
          deferred, failed, budget, nextId, outcome
vars == <<stk, evs, mode, deferred, failed, budget, nextId, outcome>>

Init == /\ \E n \in 0..MaxItems : stk = << [id |-> 1, pending |-> n] >>
        /\ evs = << <<"open", 1, 0>> >>
        /\ mode = "run" /\ deferred = FALSE /\ failed = FALSE
        /\ budget \in 0..MaxBudget
        /\ nextId = 2 /\ outcome = ""

TopF == stk[Len(stk)]
SetTop(f) == [stk EXCEPT ![Len(stk)] = f]

Fail == /\ mode' = "unwind" /\ failed' = TRUE

\* the body of a scope destructor followed by the destruction of the object
Destroy(keepMode) ==
  LET f == TopF IN
  IF budget >= f.pending
  THEN /\ budget' = budget - f.pending
       /\ evs' = Append(evs, <<"close", f.id, 0>>)
       /\ stk' = Pop(stk)
       /\ UNCHANGED <<deferred, failed>>
       /\ keepMode
  ELSE \* the skip / row completion fails inside the destructor
       IF DtorPolicy = "park"
       THEN /\ budget' = 0
            /\ deferred' = TRUE /\ failed' = TRUE
            /\ evs' = evs \o << <<"park", 0, 0>>, <<"close", f.id, 0>> >>
            /\ stk' = Pop(stk)
            /\ keepMode
       ELSE /\ mode' = "terminated"       \* the exception leaves a destructor (std::optional<Scope>::~optional is noexcept)
            /\ UNCHANGED <<budget, deferred, failed, evs, stk>>

ReadItem == /\ mode = "run" /\ TopF.pending > 0
            /\ IF budget = 0 THEN Fail /\ UNCHANGED <<stk, budget>>
               ELSE budget' = budget - 1 /\ stk' = SetTop([TopF EXCEPT !.pending = @ - 1]) /\ UNCHANGED <<mode, failed>>
            /\ UNCHANGED <<evs, deferred, nextId, outcome>>

OpenChild == /\ mode = "run" /\ TopF.pending > 0 /\ Len(stk) < MaxDepth
             /\ IF budget = 0 THEN Fail /\ UNCHANGED <<stk, budget, evs, nextId>>
                ELSE \E n \in 0..MaxItems :
                       /\ budget' = budget - 1
                       /\ stk' = Append(SetTop([TopF EXCEPT !.pending = @ - 1]), [id |-> nextId, pending |-> n])
                       /\ evs' = Append(evs, <<"open", nextId, 0>>)
                       /\ nextId' = nextId + 1
                       /\ UNCHANGED <<mode, failed>>
             /\ UNCHANGED <<deferred, outcome>>

CloseChild == /\ mode = "run" /\ Len(stk) > 1
              /\ Destroy(UNCHANGED mode)
              /\ UNCHANGED <<nextId, outcome>>

UserThrow == /\ mode = "run" /\ Fail
             /\ UNCHANGED <<stk, evs, deferred, budget, nextId, outcome>>

\* only the root is left: Finalize(), OnFinishSerialization(), then the archive object goes out of scope
Finish == /\ mode = "run" /\ Len(stk) = 1
          /\ IF deferred
             THEN /\ evs' = Append(evs, <<"rethrow", 0, 0>>) /\ mode' = "unwind"
                  /\ UNCHANGED <<stk, budget, deferred, failed, outcome>>
             ELSE /\ evs' = Append(evs, <<"close", TopF.id, 0>>) /\ stk' = <<>>       \* the root has no fallible work in its destructor
                  /\ mode' = "ended" /\ outcome' = "none"
                  /\ UNCHANGED <<budget, deferred, failed>>
          /\ UNCHANGED nextId

Unwind == /\ mode = "unwind"
          /\ IF stk = <<>> THEN mode' = "ended" /\ outcome' = "exception" /\ UNCHANGED <<stk, evs, deferred, failed, budget>>
             ELSE IF Len(stk) = 1 THEN /\ evs' = Append(evs, <<"close", TopF.id, 0>>) /\ stk' = <<>> /\ UNCHANGED <<mode, deferred, failed, budget, outcome>>
             ELSE Destroy(UNCHANGED mode) /\ UNCHANGED outcome
          /\ UNCHANGED nextId

Next == ReadItem \/ OpenChild \/ CloseChild \/ UserThrow \/ Finish \/ Unwind
Spec == Init /\ [][Next]_vars

\* ---- properties ----------------------------------------------------------------------------------------
NeverTerminated == mode # "terminated"
EventsAccepted == ARun(AInit, evs, 1).bad = ""
EndAccepted == mode = "ended" => Verdict(evs, outcome) = ""
ErrorReachesCaller == mode = "ended" => (failed <=> outcome = "exception")
AllDestroyed == mode = "ended" => stk = <<>>
=============================================================================
