---------------------------- MODULE Trace_Numeric ----------------------------
(* C16: judges the records of harness/num_harness.cpp.                                                        *)
(*  parse record  [id, t, r (outcomes of i8,u8,i16,u16,i32,u32,i64,u64,bool), f32, f64 ([k, b]),                *)
(*                 w16, w32, ww ([r (i64,u8,bool), f64]) from the char16_t / char32_t / wchar_t strings]        *)
(*  value record  [id, ty, b (bits, big endian), text, tc, t16, t32, tw, back, back16, back32, backw ([k, b])]   *)
(* Required: every outcome is allowed by Numeric.tla for (text, target); the four string widths agree;          *)
(* integer text = canonical decimal; float text is a literal that rounds to the same bits and is shortest;      *)
(* every reparse returns the identical bits.                                                                    *)
EXTENDS Numeric, Json, IOUtils

VARIABLE dummy

Traces == ndJsonDeserialize(IOEnv.TRACE)

Bad(tgt, why, dev, obs, exp) == [tgt |-> tgt, why |-> why, dev |-> dev, obs |-> obs, exp |-> exp]

ParseVerdicts(e) ==
  LET t == e.t
      lit == IntLit(t)
      IntV(i) == LET ty == IntTypes[i] allowed == IntAllowedL(lit, ty) IN
                 IF e.r[i] \in allowed THEN <<>> ELSE <<Bad(ty, "outcome", "", e.r[i], ToString(allowed))>>
      boolAllowed == BoolAllowed(t)
      BoolV == IF e.r[9] \in boolAllowed THEN <<>> ELSE <<Bad("bool", "outcome", "", e.r[9], ToString(boolAllowed))>>
      FloatV(fmt, res) == LET v == FloatParseVerdict(t, fmt, res) IN
                          IF v = "" THEN <<>> ELSE <<Bad(fmt, v, "", res.k \o " " \o ToString(res.b), "")>>
      WideV(name, w) ==
        (IF w.r = <<e.r[7], e.r[2], e.r[9]>> THEN <<>> ELSE <<Bad(name, "width", "", ToString(w.r), ToString(<<e.r[7], e.r[2], e.r[9]>>))>>)
        \o (IF w.f64 = e.f64 THEN <<>> ELSE <<Bad(name \o ":f64", "width", "", w.f64.k \o " " \o ToString(w.f64.b), e.f64.k \o " " \o ToString(e.f64.b))>>)
  IN IF Len(e.r) # 9 THEN <<Bad("", "shape", "", "", "")>>
     ELSE FoldLeft(LAMBDA acc, i : acc \o IntV(i), <<>>, [i \in 1..8 |-> i]) \o BoolV \o FloatV("f32", e.f32) \o FloatV("f64", e.f64)
          \o WideV("char16", e.w16) \o WideV("char32", e.w32) \o WideV("wchar", e.ww)

ValueVerdicts(e) ==
  LET ty == e.ty
      isF == ty = "f32" \/ ty = "f64"
      backs == <<e.back, e.back16, e.back32, e.backw>>
      BackV == FoldLeft(LAMBDA acc, j : IF backs[j].k = "V" /\ backs[j].b = e.b THEN acc
                                        ELSE Append(acc, Bad(ty, "back", "", backs[j].k \o " " \o ToString(backs[j].b), ToString(e.b))),
                        <<>>, <<1, 2, 3, 4>>)
      WideV == IF e.tc = e.t16 /\ e.tc = e.t32 /\ e.tc = e.tw THEN <<>> ELSE <<Bad(ty, "wide-text", "", "", "")>>
      TextV == IF isF THEN
                  (IF ~IsFiniteBits(ty, e.b) THEN <<>>
                   ELSE LET v == FloatTextVerdict(e.tc, ty, e.b) IN IF v = "" THEN <<>> ELSE <<Bad(ty, v, "", e.text, "")>>)
               ELSE LET v == IF TSigned(ty) THEN FromBytesSignedBE(e.b) ELSE FromBytesUnsignedBE(e.b) IN
                    IF e.text = IntText(v) THEN <<>> ELSE <<Bad(ty, "text", "", e.text, IntText(v))>>
  IN TextV \o WideV \o (IF isF /\ ~IsFiniteBits(ty, e.b) THEN <<>> ELSE BackV)

Verdicts(e) == IF "ty" \in DOMAIN e THEN ValueVerdicts(e) ELSE ParseVerdicts(e)

ASSUME \A i \in 1..Len(Traces) :
          LET vs == Verdicts(Traces[i]) IN
          \A j \in 1..Len(vs) :
             PrintT(<<"BAD", ToJson([id |-> Traces[i].id, tgt |-> vs[j].tgt, why |-> vs[j].why, dev |-> vs[j].dev, obs |-> vs[j].obs, exp |-> vs[j].exp])>>)
ASSUME PrintT(<<"CHECKED", ToJson([n |-> Len(Traces)])>>)

Init == dummy = 0
Next == UNCHANGED dummy
=============================================================================
