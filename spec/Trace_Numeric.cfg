INIT Init
NEXT Next
