SPECIFICATION FairSpec
CONSTANTS
  MaxLen = 3
  Alpha8 = {65, 128, 191, 192, 195, 224, 226, 237, 240, 244, 245, 248, 255, 144, 160}
  Alpha16 = {65, 8364, 55296, 56319, 56320, 57343, 57344, 65535}
  Alpha32 = {65, 55296, 57343, 57344, 65536, 1114111, 1114112, 2147483647}
  MarkKinds = {"def", "empty"}
INVARIANTS InBounds OutWellFormed ValidPreserved CountIsMarks ValidInputExact AcceptorAgrees AcceptorRejectsCopy
PROPERTY Terminates
