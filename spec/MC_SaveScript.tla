---------------------------- MODULE MC_SaveScript ----------------------------
(* Save scenarios of C06 explored by TLC: typed values at every format threshold  *)
(* in root / array / object position, containers, maps with typed keys, nested    *)
(* objects whose member count must equal the map header.  Invariants check the    *)
(* specification's own encoder on the typed trees.                                *)
EXTENDS SaveScript, MsgPackCorpus, Json

CONSTANT MaxMembers

VARIABLES root, n
vars == <<root, n>>

S(x) == <<"str", x>>
IntValsOf(T) == { v \in IntCorpus : IntFits(v[2], v[3], T) }
TsVals == { <<"ts", FALSE, Pad8(<<0>>), 0>>, <<"ts", FALSE, Bytes8(0,0,0,0,255,255,255,255), 0>>, <<"ts", FALSE, Bytes8(0,0,0,0,0,0,0,1), 1>>,
            <<"ts", FALSE, Bytes8(0,0,0,1,0,0,0,0), 0>>, <<"ts", FALSE, Bytes8(0,0,0,1,255,255,255,255), 999999999>>,
            <<"ts", TRUE, Bytes8(0,0,0,0,0,0,0,1), 0>>, <<"ts", TRUE, Bytes8(0,0,0,0,0,0,0,2), 500000000>>, <<"ts", TRUE, Bytes8(0,0,0,0,0,0,0,1), 999999999>>,
            <<"ts", FALSE, Bytes8(0,0,0,2,37,193,125,4), 854775807>>, <<"ts", TRUE, Bytes8(0,0,0,2,37,193,125,5), 145224192>> }

Typed ==
  UNION { { <<T, v>> : v \in IntValsOf(T) } : T \in IntTypes }
  \cup { <<"bool", <<"bool", b>>>> : b \in BOOLEAN } \cup { <<"null", <<"nil">>>> }
  \cup { <<"f32", v>> : v \in { x \in FloatCorpus : x[1] = "f32" } } \cup { <<"f64", v>> : v \in { x \in FloatCorpus : x[1] = "f64" } }
  \cup { <<"str", v>> : v \in StrCorpus } \cup { <<"vec_u8", v>> : v \in BinCorpus }
  \cup { <<"tp_ns", v>> : v \in TsVals } \cup { <<"dur_ns", v>> : v \in TsVals }
  \* a duration whose period (1/60 s) does not divide 10^9: 59 and 61 ticks; the nanoseconds are the floor of the exact value
  \* (negative counts of such periods are inexact in either rounding direction: not prescribed)
  \cup { <<"dur_60th", <<"ts", FALSE, Pad8(<<0>>), 983333333>>>>, <<"dur_60th", <<"ts", FALSE, Bytes8(0,0,0,0,0,0,0,1), 16666666>>>> }
  \cup { <<"vec_i32", <<"arr", a>>>> : a \in { <<>>, <<U(1), U(200), U(-3), U(40000)>>, Run(U(7), 15), Run(U(7), 16) } }
  \cup { <<"vec_str", <<"arr", <<S(<<120>>), S(<<>>)>>>>>>, <<"vec_vec_u8", <<"arr", <<<<"bin", <<1>>>>, <<"bin", <<>>>>>>>>>>,
         <<"map_str_i32", <<"map", <<<<S(<<97>>), U(1)>>, <<S(<<98>>), U(300)>>>>>>>>,
         <<"map_i32_str", <<"map", <<<<U(-5), S(<<120>>)>>, <<U(200), S(<<121>>)>>>>>>>> }
  \* further std types (serialized like a base type, see LoadScript!TypeAlias); small values: nested integers must not depend on C++ signedness
  \cup { <<"opt_i32", U(5)>>, <<"uptr_i32", U(-3)>>, <<"atomic_i32", U(100)>>, <<"sptr_str", S(<<120, 121>>)>>, <<"wstr", S(<<208, 159, 120>>)>>,
         <<"enum_color", S(<<71, 114, 101, 101, 110>>)>>, <<"enum_color", S(<<66, 108, 117, 101>>)>>,
         <<"set_i32", <<"arr", <<U(-3), U(1), U(40)>>>>>>, <<"arr3_i32", <<"arr", <<U(1), U(2), U(3)>>>>>>, <<"deque_i32", <<"arr", <<U(7), U(-1)>>>>>>,
         <<"list_str", <<"arr", <<S(<<120>>), S(<<>>)>>>>>>,
         <<"pair_str_i32", <<"map", <<<<S(<<107, 101, 121>>), S(<<107>>)>>, <<S(<<118, 97, 108, 117, 101>>), U(9)>>>>>>>>,
         <<"tuple_i32_str_f64", <<"arr", <<U(1), S(<<113>>), <<"f64", Bytes8(63, 248, 0, 0, 0, 0, 0, 0)>>>>>>>> }

Leaf(tv) == [k |-> "leaf", t |-> tv[1], v |-> tv[2]]
ReqOp(key, tv) == [op |-> "req", ks |-> key, t |-> tv[1], v |-> tv[2]]
ElemOp(tv) == [op |-> "elem", t |-> tv[1], v |-> tv[2]]

Init == /\ n = 0
        /\ \/ \E tv \in Typed : root = Leaf(tv)
           \/ \E tv \in Typed : root = [k |-> "arr", ops |-> <<ElemOp(tv), ElemOp(<<"i32", U(7)>>)>>]
           \/ \E tv \in Typed : root = [k |-> "obj", ops |-> <<ReqOp(<<97>>, tv)>>]
           \/ root = [k |-> "obj", ops |-> <<>>]

\* grow an object: one more member per step (plain, typed key, nested object, nested array) - the map header must follow
BaseOps(tag) == <<ReqOp(<<66, tag>>, <<"u8", U(tag)>>), ReqOp(<<67, tag>>, <<"str", S(<<tag>>)>>)>>
Members == { [op |-> "base", ops |-> BaseOps(49)],
             [op |-> "base", ops |-> <<ReqOp(<<68>>, <<"i8", U(-3)>>), [op |-> "base", ops |-> BaseOps(50)], ReqOp(<<69>>, <<"bool", <<"bool", TRUE>>>>)>>],
             ReqOp(<<107>>, <<"i16", U(200)>>), [op |-> "req", ki |-> 200, t |-> "str", v |-> S(<<120>>)],
             [op |-> "req", ki |-> -7, t |-> "u8", v |-> U(255)],
             [op |-> "req", ki |-> 0, t |-> "str", v |-> S(<<122>>)],            \* the integer key 0
             [op |-> "req", ki |-> 5, t |-> "vec_u8", v |-> <<"bin", <<1, 2, 3>>>>],          \* a byte container under a non-string key stays binary
             [op |-> "obj", ks |-> <<111>>, ops |-> <<ReqOp(<<120>>, <<"i64", U(40000)>>), ReqOp(<<121>>, <<"tp_ns", <<"ts", TRUE, Bytes8(0,0,0,0,0,0,0,2), 500000000>>>>)>>],
             [op |-> "arr", ks |-> <<114>>, ops |-> <<ElemOp(<<"vec_u8", <<"bin", <<1, 2>>>>>>), ElemOp(<<"u32", U(70000)>>)>>] }
Next == /\ root.k = "obj" /\ n < MaxMembers
        /\ \E mbr \in Members : (\A i \in 1..Len(root.ops) : root.ops[i] # mbr) /\ root' = [root EXCEPT !.ops = Append(@, mbr)]
        /\ n' = n + 1

Spec == Init /\ [][Next]_vars

Tree == TreeOfRoot(root)
\* the typed encoder without deviations is the compact encoding of the abstract document, and it decodes back
EncoderConsistent == EncTree(Tree, {}) = Compact(DocOf(Tree))
DecodesBack == LET e == EncTree(Tree, {}) r == Decode(e, 1) IN r.ok /\ r.v = DocOf(Tree) /\ r.p = Len(e) + 1
DeviationsNeverShorter == \A D \in DevSets : Len(EncTree(Tree, D)) >= Len(EncTree(Tree, {}))
RECURSIVE CountMembers(_, _)
CountMembers(ops, i) == IF i > Len(ops) THEN 0 ELSE (IF ops[i].op = "base" THEN CountMembers(ops[i].ops, 1) ELSE 1) + CountMembers(ops, i + 1)
MapHeaderCounts == root.k = "obj" => Decode(EncTree(Tree, {}), 1).v = <<"map", DocOf(Tree)[2]>> /\ Len(DocOf(Tree)[2]) = CountMembers(root.ops, 1)

RtPol == [mm |-> "throw", ov |-> "throw", arch |-> "msgpack", dev |-> ""]
\* C01: what loading the saved document back with the same script must deliver (the abstract document, independent of the bytes)
Export == PrintT(<<"GEN", ToJson([root |-> root, exp |-> Exec(DocOf(Tree), root, RtPol), expsave |-> "ok"])>>)
ExportWide == \A wt \in WideTypes : WideRoot(root, wt) = root \/
                 PrintT(<<"GEN", ToJson([root |-> WideRoot(root, wt), exp |-> Exec(DocOf(Tree), root, RtPol), expsave |-> "ok"])>>)
=============================================================================
