------------------------------- MODULE Numeric -------------------------------
(***************************************************************************)
(* Layer 1: text <-> number conversion of the fundamental types            *)
(* (conversion_detail/convert_fundamental.h, docs/bitserializer_convert.md *)
(* "Conversion fundamental types": integers and floating types go through  *)
(* std::from_chars / std::to_chars).                                       *)
(*                                                                         *)
(* Texts are sequences of code points; integers are BSBigInt values; IEEE  *)
(* values are byte sequences (big endian) of their bit pattern; outcomes   *)
(* of integer/bool targets are strings "V:<decimal>" | "I" | "O".          *)
(*                                                                         *)
(* The literal grammar (intended grammar as far as code, tests and docs    *)
(* determine it; DECISIONS where they do not):                             *)
(*   blanks   = (U+0020 | U+0009)*                  (code; nothing else is skipped)      *)
(*   integer  = blanks ['-'] digit+                 longest prefix; anything may follow   *)
(*              except '.' digit, which makes the text a fractional literal:              *)
(*              InvalidArgument for integer targets (tests: "3.1", "-1.0")                 *)
(*   float    = blanks ['-'] (digit+ ['.' digit*] | '.' digit+) [(e|E) [+|-] digit+]       *)
(*              (std::from_chars, chars_format::general); longest prefix                   *)
(*   bool     = blanks (digit+ | true | false in any case, as a prefix)                    *)
(*  N1 a leading '+' is not part of any literal (from_chars); -> InvalidArgument.          *)
(*  N2 '-' digit+ for an UNSIGNED target: the property reads it as a literal whose value   *)
(*     the target cannot hold (OutOfRange; Value 0 for "-0"); from_chars does not accept   *)
(*     the sign at all (InvalidArgument).  Both are accepted.                              *)
(*  N3 an exponent after an integer literal ("1e5") is trailing text for integer targets.  *)
(*  N4 bool: the digit literals are 0 and 1 (tests: "2", "555" -> OutOfRange).  A longer   *)
(*     digit run whose value is 0 or 1 ("01") may be a Value or OutOfRange; "1.5" may be   *)
(*     true or InvalidArgument.                                                            *)
(*  N5 floats: a non-zero literal that rounds to zero may be OutOfRange or +-0; a literal  *)
(*     that rounds to infinity must be OutOfRange; "inf"/"nan" spellings are not judged.   *)
(*  N6 the value returned for a float target must be the correctly rounded one: the        *)
(*     literal's exact decimal value lies in the rounding interval of the returned bits    *)
(*     (round to nearest, ties to even) -- decided with exact integer arithmetic.          *)
(***************************************************************************)
EXTENDS BSBigInt

IsDigit(c) == c >= 48 /\ c <= 57
IsBlank(c) == c = 32 \/ c = 9
ChMinus == 45  ChPlus == 43  ChDot == 46  ChE == 101  ChEUp == 69

At(t, i, c) == i <= Len(t) /\ t[i] = c
RunEnd(t, i) ==
  IF i > Len(t) THEN i
  ELSE LET k == SelectInSubSeq(t, i, Len(t), LAMBDA c : ~IsDigit(c)) IN IF k = 0 THEN Len(t) + 1 ELSE k
RunDigits(t, i, j) == [k \in 1..(j - i) |-> t[i + k - 1] - 48]
SkipBlanks(t) == LET k == SelectInSeq(t, LAMBDA c : ~IsBlank(c)) IN IF k = 0 THEN Len(t) + 1 ELSE k

-----------------------------------------------------------------------------
(* Integer targets                                                          *)

IntTypes == <<"i8", "u8", "i16", "u16", "i32", "u32", "i64", "u64">>
TSigned(ty) == ty \in {"i8", "i16", "i32", "i64"}
TMin(ty) == CASE ty = "i8" -> I8Min [] ty = "i16" -> I16Min [] ty = "i32" -> I32Min [] ty = "i64" -> I64Min [] OTHER -> Zero
TMax(ty) == CASE ty = "i8" -> I8Max [] ty = "u8" -> U8Max [] ty = "i16" -> I16Max [] ty = "u16" -> U16Max
              [] ty = "i32" -> I32Max [] ty = "u32" -> U32Max [] ty = "i64" -> I64Max [] OTHER -> U64Max
IntOutcome(v, ty) == IF Le(TMin(ty), v) /\ Le(v, TMax(ty)) THEN "V:" \o ToDec(v) ELSE "O"

\* [ok, neg, v, frac]: the leading integer literal
IntLit(t) ==
  LET i == SkipBlanks(t)
      neg == At(t, i, ChMinus)
      j == IF neg THEN i + 1 ELSE i
      e == RunEnd(t, j)
  IN IF e = j THEN [ok |-> FALSE, neg |-> neg, v |-> Zero, frac |-> FALSE]
     ELSE [ok |-> TRUE, neg |-> neg, v |-> Mk(neg, MFromDigits(RunDigits(t, j, e))),
           frac |-> At(t, e, ChDot) /\ e + 1 <= Len(t) /\ IsDigit(t[e + 1])]

IntAllowedL(lit, ty) ==
  IF ~lit.ok THEN {"I"}
  ELSE LET den == IntOutcome(lit.v, ty) IN
       \* a fractional literal is InvalidArgument; when its integer part is out of range as well, either error may be reported
       IF lit.frac THEN (IF den = "O" THEN {"I", "O"} ELSE {"I"})
       ELSE IF lit.neg /\ ~TSigned(ty) THEN {"I", den} ELSE {den}          \* N2
IntAllowed(t, ty) == IntAllowedL(IntLit(t), ty)

\* canonical decimal text of an integer (what Convert::ToString must produce)
IntText(v) == ToDec(v)

-----------------------------------------------------------------------------
(* bool                                                                     *)

Lower(c) == IF c >= 65 /\ c <= 90 THEN c + 32 ELSE c
HasPrefixCI(t, i, w) == i + Len(w) - 1 <= Len(t) /\ \A k \in 1..Len(w) : Lower(t[i + k - 1]) = w[k]
WTrue == <<116, 114, 117, 101>>
WFalse == <<102, 97, 108, 115, 101>>

BoolAllowed(t) ==
  LET i == SkipBlanks(t) IN
  IF i > Len(t) THEN {"I"}
  ELSE IF IsDigit(t[i]) THEN
       LET e == RunEnd(t, i)
           v == Mk(FALSE, MFromDigits(RunDigits(t, i, e)))
           frac == At(t, e, ChDot) /\ e + 1 <= Len(t) /\ IsDigit(t[e + 1])
           base == IF e = i + 1 THEN (IF t[i] = 48 THEN {"V:0"} ELSE IF t[i] = 49 THEN {"V:1"} ELSE {"O"})
                   ELSE IF v = Zero THEN {"V:0", "O"} ELSE IF v = One THEN {"V:1", "O"} ELSE {"O"}        \* N4
       IN IF frac THEN base \cup {"I"} ELSE base
  ELSE IF HasPrefixCI(t, i, WTrue) THEN {"V:1"}
  ELSE IF HasPrefixCI(t, i, WFalse) THEN {"V:0"}
  ELSE {"I"}

-----------------------------------------------------------------------------
(* Floating point literals: [ok, neg, dig (magnitude of all digits), x (decimal exponent), end, special]  *)
(* value = (-1)^neg * dig * 10^x                                                                          *)

ExpCap == 100000        \* exponents beyond +-ExpCap are clamped (far outside every format)

FloatLitAt(t, i0) ==
  LET neg == At(t, i0, ChMinus)
      i == IF neg THEN i0 + 1 ELSE i0
      e1 == RunEnd(t, i)                                     \* integer digits t[i..e1-1]
      hasDot == At(t, e1, ChDot)
      e2 == IF hasDot THEN RunEnd(t, e1 + 1) ELSE e1         \* fraction digits t[e1+1..e2-1]
      nInt == e1 - i
      nFrac == IF hasDot THEN e2 - (e1 + 1) ELSE 0
      mEnd == IF hasDot THEN e2 ELSE e1                      \* a bare "1." is a literal ("1." -> 1), a bare "." is not
  IN IF nInt + nFrac = 0 THEN [ok |-> FALSE, neg |-> neg, dig |-> <<>>, x |-> 0, end |-> i0]
     ELSE LET ds == RunDigits(t, i, e1) \o (IF hasDot THEN RunDigits(t, e1 + 1, e2) ELSE <<>>)
              hasE == At(t, mEnd, ChE) \/ At(t, mEnd, ChEUp)
              sgn == IF hasE /\ At(t, mEnd + 1, ChMinus) THEN -1 ELSE IF hasE /\ At(t, mEnd + 1, ChPlus) THEN 1 ELSE 0
              x1 == IF sgn = 0 THEN mEnd + 1 ELSE mEnd + 2
              x2 == IF hasE THEN RunEnd(t, x1) ELSE x1
              expOK == hasE /\ x2 > x1
              xd == IF expOK THEN RunDigits(t, x1, x2) ELSE <<>>
              xs == LET f == SelectInSeq(xd, LAMBDA d : d # 0) IN IF f = 0 THEN <<>> ELSE SubSeq(xd, f, Len(xd))
              xv == IF Len(xs) > 6 THEN ExpCap ELSE LET n == MToNat(MFromDigits(xs)) IN IF n > ExpCap THEN ExpCap ELSE n
          IN [ok |-> TRUE, neg |-> neg, dig |-> MFromDigits(ds),
              x |-> (IF sgn = -1 THEN 0 - xv ELSE xv) - nFrac,
              end |-> IF expOK THEN x2 ELSE mEnd]
FloatLit(t) == FloatLitAt(t, SkipBlanks(t))

\* "inf" / "nan" spellings after blanks and an optional '-' (N5: not judged)
IsSpecialSpelling(t) ==
  LET i0 == SkipBlanks(t) i == IF At(t, i0, ChMinus) THEN i0 + 1 ELSE i0 IN
  HasPrefixCI(t, i, <<105, 110, 102>>) \/ HasPrefixCI(t, i, <<110, 97, 110>>)

-----------------------------------------------------------------------------
(* IEEE-754 binary32 / binary64 bit patterns as big endian bytes            *)

FmtP(fmt) == IF fmt = "f32" THEN 24 ELSE 53                 \* precision in bits (with the hidden bit)
FmtBias(fmt) == IF fmt = "f32" THEN 127 ELSE 1023
FmtEMax(fmt) == IF fmt = "f32" THEN 255 ELSE 2047            \* the all-ones exponent

\* [neg, E (biased exponent), F (fraction, magnitude)]
Decode(fmt, b) ==
  IF fmt = "f32" THEN [neg |-> b[1] >= 128, E |-> ((b[1] % 128) * 2) + (b[2] \div 128),
                       F |-> MFromBytesBE(<<b[2] % 128, b[3], b[4]>>)]
  ELSE [neg |-> b[1] >= 128, E |-> ((b[1] % 128) * 16) + (b[2] \div 16),
        F |-> MFromBytesBE(<<b[2] % 16, b[3], b[4], b[5], b[6], b[7], b[8]>>)]
IsFiniteBits(fmt, b) == Decode(fmt, b).E # FmtEMax(fmt)

\* magnitude = m * 2^e
Mant(fmt, d) == IF d.E = 0 THEN d.F ELSE MAdd(d.F, MPow2(FmtP(fmt) - 1))
Exp2(fmt, d) == (IF d.E = 0 THEN 1 ELSE d.E) - FmtBias(fmt) - (FmtP(fmt) - 1)

\* compare dig * 10^x with B * 2^q  (all magnitudes): -1, 0, 1
CmpDecBin(dig, x, B, q) ==
  LET L1 == IF x >= 0 THEN MShiftDec(dig, x) ELSE dig
      L  == IF q < 0 THEN MMul(L1, MPow2(0 - q)) ELSE L1
      R1 == IF x < 0 THEN MShiftDec(B, 0 - x) ELSE B
      R  == IF q >= 0 THEN MMul(R1, MPow2(q)) ELSE R1
  IN MCmp(L, R)

\* does the decimal magnitude dig * 10^x round (nearest, ties to even) to the finite pattern d ?
\* bounds in units of 2^(e-2):  value 4m, upper midpoint 4m+2, lower midpoint 4m-2 (4m-1 at a binade boundary).
\* Both sides are scaled to integers once: L = dig * 10^max(x,0) * 2^max(-q,0),  R(B) = B * 10^max(-x,0) * 2^max(q,0), q = e-2.
RoundsToMag(fmt, dig, x, d) ==
  LET m == Mant(fmt, d)
      q == Exp2(fmt, d) - 2
      p2 == MPow2(IF q < 0 THEN 0 - q ELSE q)
      L1 == IF x >= 0 THEN MShiftDec(dig, x) ELSE dig
      L  == IF q < 0 THEN MMul(L1, p2) ELSE L1
      S  == LET s1 == IF q >= 0 THEN p2 ELSE <<1>> IN IF x < 0 THEN MShiftDec(s1, 0 - x) ELSE s1
      m4 == MMulSmall(m, 4)
      even == (MLimb(m, 1) % 2) = 0
      atBinade == d.F = <<>> /\ d.E > 1
      cu == MCmp(L, MMul(S, MAddSmall(m4, 2)))
  IN /\ (cu < 0 \/ (cu = 0 /\ even))
     /\ (m = <<>> \/ LET cl == MCmp(L, MMul(S, MSub(m4, IF atBinade THEN <<1>> ELSE <<2>>))) IN cl > 0 \/ (cl = 0 /\ even))

\* rounds to infinity: at or above the upper midpoint of the largest finite value (whose mantissa is odd: the tie goes up)
RoundsToInf(fmt, dig, x) ==
  LET mmax == MSub(MPow2(FmtP(fmt)), <<1>>)
      e == (FmtEMax(fmt) - 1) - FmtBias(fmt) - (FmtP(fmt) - 1)
  IN CmpDecBin(dig, x, MAddSmall(MMulSmall(mmax, 4), 2), e - 2) >= 0
\* rounds to zero: at or below half of the smallest subnormal (the tie goes to the even zero)
RoundsToZero(fmt, dig, x) == CmpDecBin(dig, x, <<2>>, (1 - FmtBias(fmt) - (FmtP(fmt) - 1)) - 2) <= 0

\* quick magnitude classes that avoid huge powers: number of decimal digits + exponent
DecMagnitude(dig, x) == MNumDigits(dig) + x          \* value < 10^DecMagnitude
FarTooBig(dig, x) == dig # <<>> /\ DecMagnitude(dig, x) > 400
FarTooSmall(dig, x) == dig # <<>> /\ DecMagnitude(dig, x) < -400

\* verdict on the result res = [k |-> "V" | "I" | "O" | other, b |-> bytes] of parsing text t into format fmt:  "" = accepted
FloatParseVerdict(t, fmt, res) ==
  LET lit == FloatLit(t) IN
  IF ~lit.ok THEN
     (IF IsSpecialSpelling(t) THEN (IF res.k = "I" \/ (res.k = "V" /\ ~IsFiniteBits(fmt, res.b)) THEN "" ELSE "special-spelling")
      ELSE IF res.k = "I" THEN "" ELSE "no-literal")
  ELSE IF lit.dig = <<>> THEN       \* zero: the sign of the literal is kept
     (IF res.k = "V" /\ Decode(fmt, res.b) = [neg |-> lit.neg, E |-> 0, F |-> <<>>] THEN "" ELSE "zero")
  ELSE IF res.k = "O" THEN
     (IF FarTooBig(lit.dig, lit.x) \/ FarTooSmall(lit.dig, lit.x) THEN ""
      ELSE IF RoundsToInf(fmt, lit.dig, lit.x) \/ RoundsToZero(fmt, lit.dig, lit.x) THEN "" ELSE "range-error-for-representable")
  ELSE IF res.k = "V" THEN
     (IF FarTooBig(lit.dig, lit.x) THEN "value-for-overflow"
      ELSE LET d == Decode(fmt, res.b) IN
           IF d.E = FmtEMax(fmt) THEN "non-finite-result"
           ELSE IF d.neg # lit.neg THEN "sign"
           ELSE IF FarTooSmall(lit.dig, lit.x) THEN (IF d.E = 0 /\ d.F = <<>> THEN "" ELSE "not-nearest")
           ELSE IF RoundsToMag(fmt, lit.dig, lit.x, d) THEN "" ELSE "not-nearest")
  ELSE "wrong-class"

-----------------------------------------------------------------------------
(* Number -> text: the text of a finite IEEE value must be a float literal (whole text), parse back to the     *)
(* identical bits (its decimal value lies in the rounding interval) and be SHORTEST.                           *)
(*  N7 "shortest" is read as std::to_chars defines it: no decimal text with fewer CHARACTERS round-trips        *)
(*     (to_chars prints 2^26+8 as "67108872", eight characters, although seven significant digits suffice:      *)
(*     "6.710887e+07" is longer).  The minimal number of significant digits n is found by repeatedly trying the *)
(*     two neighbouring candidates with one digit less (cut, rounded down / up): the interval is convex and     *)
(*     contains the current candidate, so these two suffice.  The minimal character count is then               *)
(*     min(fixed, scientific) for n digits and the value's decimal exponent.                                    *)

\* strip trailing zeros of the digit magnitude: [dig, x]
RECURSIVE StripTrailingZeros(_, _)
StripTrailingZeros(dig, x) ==
  IF dig = <<>> THEN [dig |-> dig, x |-> 0]
  ELSE LET dm == MDivModSmall(dig, 10) IN IF dm[2] = 0 THEN StripTrailingZeros(dm[1], x + 1) ELSE [dig |-> dig, x |-> x]

\* [dig, x] with the fewest significant digits that still rounds to d, starting from a decimal that does
RECURSIVE MinDigits(_, _, _, _)
MinDigits(fmt, dig, x, d) ==
  LET s == StripTrailingZeros(dig, x) IN
  IF MNumDigits(s.dig) <= 1 THEN s
  ELSE LET q == MDivModSmall(s.dig, 10)[1] IN
       IF RoundsToMag(fmt, q, s.x + 1, d) THEN MinDigits(fmt, q, s.x + 1, d)
       ELSE IF RoundsToMag(fmt, MAddSmall(q, 1), s.x + 1, d) THEN MinDigits(fmt, MAddSmall(q, 1), s.x + 1, d)
       ELSE s

NatLen(k) == IF k < 10 THEN 1 ELSE IF k < 100 THEN 2 ELSE IF k < 1000 THEN 3 ELSE 4
\* characters of the shortest spelling of n significant digits whose last digit has weight 10^x (sign not counted)
MinChars(n, x) ==
  LET E == n + x - 1                                                         \* scientific exponent
      sci == n + (IF n > 1 THEN 1 ELSE 0) + 2 + (IF NatLen(IF E < 0 THEN 0 - E ELSE E) < 2 THEN 2 ELSE NatLen(IF E < 0 THEN 0 - E ELSE E))
      fixed == IF x >= 0 THEN n + x ELSE IF E >= 0 THEN n + 1 ELSE n + 1 - E
  IN IF sci < fixed THEN sci ELSE fixed

FloatTextVerdict(t, fmt, b) ==
  LET lit == FloatLitAt(t, 1)
      d == Decode(fmt, b)
  IN IF ~lit.ok \/ lit.end # Len(t) + 1 THEN "not-a-literal"
     ELSE IF lit.neg # d.neg THEN "sign"
     ELSE IF lit.dig = <<>> THEN (IF d.E = 0 /\ d.F = <<>> THEN "" ELSE "not-round-trip")
     ELSE IF FarTooBig(lit.dig, lit.x) \/ FarTooSmall(lit.dig, lit.x) THEN "not-round-trip"
     ELSE IF ~RoundsToMag(fmt, lit.dig, lit.x, d) THEN "not-round-trip"
     ELSE LET s == MinDigits(fmt, lit.dig, lit.x, d) IN
          IF Len(t) - (IF lit.neg THEN 1 ELSE 0) <= MinChars(MNumDigits(s.dig), s.x) THEN "" ELSE "not-shortest"
=============================================================================
