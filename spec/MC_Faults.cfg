SPECIFICATION Spec
INVARIANT Export
