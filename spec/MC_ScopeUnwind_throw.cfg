SPECIFICATION Spec
CONSTANTS
  MaxDepth = 3
  MaxItems = 2
  MaxBudget = 6
  DtorPolicy = "throw"
INVARIANTS NeverTerminated
CHECK_DEADLOCK FALSE
