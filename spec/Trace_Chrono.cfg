INIT Init
NEXT Next
