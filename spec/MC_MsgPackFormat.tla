-------------------------- MODULE MC_MsgPackFormat --------------------------
(* Internal consistency of the Layer-1 MessagePack specification, checked by   *)
(* TLC for a corpus of values at every format threshold and every width policy: *)
(*  - Decode(Enc(v, w)) = v and consumes exactly the encoding                   *)
(*  - Enc(v, 0) is never longer than any other legal encoding                   *)
(*  - every strict prefix of an encoding is "trunc" (MessagePack is prefix-free)*)
(* The state machine walks the prefixes of each encoding.                       *)
EXTENDS MsgPackFormat, MsgPackCorpus

VARIABLES v, w, cut

Init == /\ v \in Corpus
        /\ w \in 0..5
        /\ cut = Len(Enc(v, w))

Next == /\ cut > 0
        /\ cut' = cut - 1
        /\ UNCHANGED <<v, w>>

Spec == Init /\ [][Next]_<<v, w, cut>>

RoundTrip == LET e == Enc(v, w) r == Decode(e, 1) IN
             cut = Len(e) => (r.ok /\ r.v = v /\ r.p = Len(e) + 1)
CompactIsShortest == Len(Enc(v, 0)) <= Len(Enc(v, w))
PrefixFree == LET e == Enc(v, w) IN cut < Len(e) => Decode(SubSeq(e, 1, cut), 1).err \in {"trunc", "count"}
=============================================================================
