--------------------------- MODULE Trace_Unicode11 ---------------------------
(* C11 trace validation of sequences: every conversion logged by utf_harness (mode c11seq) carries its input    *)
(* code units and its output; TLC evaluates Unicode.tla on the logged input and decides.  For well-formed input  *)
(* (the property's domain) there is exactly one accepted outcome: Success, the exact encoding form appended      *)
(* to the one-unit prefix "x", iterator at the end, zero errors, regardless of the policy.                       *)
EXTENDS Unicode, Json, IOUtils

Traces == ndJsonDeserialize(IOEnv.TRACE)

Verdict11(t) ==
  IF Len(t.out) < 1 \/ t.out[1] # 120 THEN "prefix of the output string damaged"
  ELSE LET p == [w |-> t.sf, u |-> t.u, tw |-> t.tw, skip |-> (t.pol = "def"), mark |-> DefaultMark(t.tw),
                 allowUE |-> TRUE, partial |-> FALSE, h |-> <<>>]
           obs == [out |-> SubSeq(t.out, 2, Len(t.out)), code |-> t.code, it |-> t.it, cnt |-> t.cnt]
       IN IF \E k \in DOMAIN t.u : t.u[k] < 0 THEN "input unit not representable"
          ELSE IF ExplainsLong(p, obs) THEN "" ELSE "output is not the transcoding of the logged input"

ASSUME \A i \in 1..Len(Traces) :
         LET t == Traces[i]  v == Verdict11(t) IN
         v = "" \/ PrintT(<<"BAD", ToJson([id |-> t.id, api |-> t.api, sf |-> t.sf, tw |-> t.tw, why |-> v, dev |-> ""])>>)
\* how many of the records had well-formed input (the property's domain): reported, so that vacuity is visible
ASSUME PrintT(<<"CHECKED", ToJson([n |-> Len(Traces)])>>)

VARIABLE dummy
Init == dummy = 0
Next == UNCHANGED dummy
=============================================================================
