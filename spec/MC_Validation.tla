---------------------------- MODULE MC_Validation ----------------------------
(* Scenario space of C17, explored by TLC.  Every reachable state is one scenario (a class = list of fields with   *)
(* validators, a document = status of every field, a placement, maxValidationErrors); it is exported with the       *)
(* observation the abstract rules A prescribe, and the property-level statements are checked on A in every state.   *)
(*   Mode "rules"  : one field; its validator list grows by one validator per step (all ordered lists of distinct   *)
(*                   validators up to MaxV) x every status of its type                                              *)
(*   Mode "fields" : the class grows by one field per step (up to MaxF), fields drawn from a catalogue of           *)
(*                   representative (validators, status) profiles, x cap                                            *)
EXTENDS Validation, Json, SequencesExt

CONSTANTS Mode, MaxV, MaxF,
          PlaceSet,      \* placements explored
          Caps,          \* values of maxValidationErrors explored
          FieldTypes,    \* rules mode: field families explored (a family = a field type + a validator alphabet + statuses)
          Catalogue,     \* fields mode: "small" | "large"
          Pols           \* mismatchedTypesPolicy values explored: subset of {"skip", "throw"}

VARIABLES scn
vars == <<scn>>

-----------------------------------------------------------------------------
(* Validator alphabets (default and custom messages) *)
Req      == V("req", 0, 0, "")
ReqC     == V("req", 0, 0, "Age is required")
Range1   == V("range", 0, 10, "")
RangeC   == V("range", 1, 9, "Age should be in the range 1...9")
RangeEq  == V("range", 5, 5, "")
Custom   == V("custom", 0, 0, "")
CustomC  == V("custom", 0, 0, "rejected by the custom rule")
MinSize2 == V("minsize", 2, 0, "")
MaxSize4 == V("maxsize", 4, 0, "")
MinSizeC == V("minsize", 3, 0, "too short")
MaxSizeC == V("maxsize", 3, 0, "too long")
Email    == V("email", 0, 0, "")
EmailC   == V("email", 0, 0, "not an e-mail")
Phone    == V("phone", 7, 15, "")
PhoneNP  == V("phonenp", 7, 15, "")
PhoneC   == V("phone", 7, 15, "not a phone")
PhoneNPC == V("phonenp", 7, 15, "not a phone either")
Phone612 == V("phone", 6, 12, "")                       \* the shape used by validators_tests.cpp
Phone612C == V("phone", 6, 12, "Bad office phone")
PhoneNP612 == V("phonenp", 6, 12, "")
PhoneEq  == V("phone", 10, 10, "")                      \* fixed length: min = max
PhoneEqC == V("phone", 10, 10, "Bad mobile phone")
PhoneNPEqC == V("phonenp", 12, 12, "Bad local phone")

\* Families of the rules mode: family -> field type, validator alphabet, statuses
TypeOf(fam) == IF fam \in {"phone", "email"} THEN "str" ELSE IF fam = "wide" THEN "wstr" ELSE fam
Alphabet(fam) ==
  CASE fam = "int"    -> {Req, ReqC, Range1, RangeC, RangeEq, Custom}
    [] fam = "optint" -> {Req, ReqC, Custom, CustomC}
    [] fam = "str"    -> {Req, MinSize2, MaxSize4, MinSizeC, MaxSizeC, Email, EmailC, Phone, PhoneNP, PhoneC, Custom}
    [] fam = "phone"  -> {Req, Phone, PhoneC, PhoneNP, PhoneNPC, Phone612, Phone612C, PhoneNP612, PhoneEq, PhoneEqC, PhoneNPEqC}
    [] fam = "email"  -> {Req, Email, EmailC, Custom, MaxSizeC}
    [] fam \in {"vecint", "vecstr", "mapint"} -> {Req, ReqC, MinSize2, MaxSize4, MinSizeC, MaxSizeC}
    [] fam = "obj"    -> {Req, ReqC, Custom, CustomC}
    [] fam = "wide"   -> {Req, Email, EmailC, Phone, PhoneC, MaxSizeC}

\* statuses of the wide-string family: "w<k>" = the k-th wide example
WideDocs == SetToSeq(WEmailValid \cup WEmailInvalid \cup WPhoneExamples)
WideStatus(k) == "w" \o ToString(k)
WideIndex(st) == CHOOSE k \in 1..Len(WideDocs) : WideStatus(k) = st
(* Statuses and the document value they stand for.  int: relative to Range(0,10), Range(1,9) and Range(5,5);           *)
(* strings and containers: sizes relative to MinSize(2)/MaxSize(4) and MinSize(3)/MaxSize(3)                           *)
Ints(n) == [i \in 1..n |-> i]
Strs(n) == SubSeq(<<"a", "b", "c", "d", "e">>, 1, n)
Pairs(n) == SubSeq(<< <<"a1", 1>>, <<"a2", 2>>, <<"a3", 3>>, <<"a4", 4>>, <<"a5", 5>> >>, 1, n)
SizeOfStatus(st) == CASE st = "len1" -> 1 [] st = "len2" -> 2 [] st = "len3" -> 3 [] st = "len4" -> 4 [] st = "len5" -> 5
EmailStatus == [em1 |-> "simple@example.com", em2 |-> "x@example.com", em3 |-> "abc.example.com", em4 |-> "a@b@example.com",
                em5 |-> "first last@example.com", em6 |-> "smith 2000@mail.com", em7 |-> "very.common@example.com",
                em8 |-> "admin@example", em9 |-> "admin@example10.com", em10 |-> "admin@best-example.com", em11 |-> "0123456789@example.com",
                em12 |-> "@", em13 |-> ".name@example.com", em14 |-> "name.@example.com", em15 |-> "first..last@example.com",
                em16 |-> "john(doe)@example.org)", em17 |-> "john<doe>@example.org)", em18 |-> "john_doe@", em19 |-> "john_doe@-example.com",
                em20 |-> "john_doe@example.com-", em21 |-> "john_doe@10example.com", em22 |-> "john_doe@example com", em23 |-> "john_doe@example_com"]
PhoneStatus == [ph1 |-> "+555 (55) 555-55-55", ph2 |-> "(55) 555 55 55", ph3 |-> "555 5 55 55", ph4 |-> "+12345", ph5 |-> "+1234567890123",
                ph6 |-> "+44 20 7123 1234", ph7 |-> "+1 (555) 555-55-55", ph8 |-> "+91-22-27782183", ph9 |-> "+1 ((555)) 555-55-55",
                ph10 |-> "+1 (555 555-55-55", ph11 |-> "+1 (555) )555-55-55", ph12 |-> "+1 () 555-55-55", ph13 |-> "+1 555 555-55-55 )",
                ph14 |-> "+1 555 555-55-55 ()", ph15 |-> "-1 (555) 555-5555", ph16 |-> "-(555) 555-5555", ph17 |-> "+1 (555) 555--5555",
                ph18 |-> "+1 (555) 555-5555-", ph19 |-> "+1 (555) -555-55-55", ph20 |-> "+1 (-555) 555-55-55", ph21 |-> "+1 (555-) 555-55-55",
                ph22 |-> "*1 (555) 555-55-55", ph23 |-> "1 (555) 555-55-55$", ph24 |-> "1 (555) 555-55=55"]
DocOf(t, st) ==
  IF t = "wstr" /\ st \notin {"absent", "null", "mismatch"} THEN <<"wstr", WideDocs[WideIndex(st)]>>
  ELSE IF st \in DOMAIN EmailStatus THEN <<"str", EmailStatus[st]>>
  ELSE IF st \in DOMAIN PhoneStatus THEN <<"str", PhoneStatus[st]>>
  ELSE IF t \in {"vecint", "vecstr", "mapint"} /\ st \in {"len1", "len2", "len3", "len4", "len5"} THEN
       (IF t = "vecint" THEN <<"ints", Ints(SizeOfStatus(st))>> ELSE IF t = "vecstr" THEN <<"strs", Strs(SizeOfStatus(st))>>
        ELSE <<"imap", Pairs(SizeOfStatus(st))>>)
  ELSE IF t = "obj" /\ st \in {"valid", "even"} THEN <<"obj", IF st = "valid" THEN 5 ELSE 6>>
  ELSE
  CASE st = "absent" -> <<"absent">>
    [] st = "null" -> <<"null">>
    [] st = "mismatch" -> IF t \in {"int", "optint"} THEN <<"str", "zz">> ELSE <<"int", 12>>
    [] st = "below" -> <<"int", -1>>      \* just outside Range(0,10)
    [] st = "lower" -> <<"int", 0>>       \* at the lower bound of Range(0,10), just outside Range(1,9)
    [] st = "inlow" -> <<"int", 1>>       \* just inside Range(0,10), at the lower bound of Range(1,9)
    [] st = "four" -> <<"int", 4>>        \* just below Range(5,5)
    [] st = "valid" -> <<"int", 5>>       \* Range(5,5): at both bounds
    [] st = "even" -> <<"int", 6>>        \* just above Range(5,5)
    [] st = "inhigh" -> <<"int", 9>>
    [] st = "upper" -> <<"int", 10>>
    [] st = "above" -> <<"int", 11>>
    [] st = "len1" -> <<"str", "a">>
    [] st = "len2" -> <<"str", "ab">>
    [] st = "len3" -> <<"str", "abc">>
    [] st = "len4" -> <<"str", "abcd">>
    [] st = "len5" -> <<"str", "abcde">>
    [] st = "space" -> <<"str", "a b">>

Statuses(fam) ==
  CASE fam = "int" -> {"below", "lower", "inlow", "four", "valid", "even", "inhigh", "upper", "above", "absent", "null", "mismatch"}
    [] fam \in {"optint", "obj"} -> {"valid", "even", "absent", "null", "mismatch"}
    [] fam = "str" -> {"len1", "len2", "len3", "len4", "len5", "space", "absent", "null", "mismatch",
                       "em1", "em2", "em3", "em4", "em5", "em6", "em7", "ph1", "ph2", "ph3", "ph4", "ph5", "ph6", "ph7"}
    [] fam = "phone" -> DOMAIN PhoneStatus \cup {"absent", "null"}
    [] fam = "email" -> DOMAIN EmailStatus \cup {"absent", "null"}
    [] fam = "wide" -> {WideStatus(k) : k \in 1..Len(WideDocs)} \cup {"absent", "null"}
    [] fam \in {"vecint", "vecstr", "mapint"} -> {"len1", "len2", "len3", "len4", "len5", "absent", "null", "mismatch"}

\* the policy only matters where a value can be mismatched, or (a claim about null) not loaded: the ThrowError policy is
\* explored with these statuses
ThrowStatuses == {"mismatch", "null", "absent", "valid", "len3", "len5"}

Key(k) == "f" \o ToString(k)
Field(k, t, st, vs) == [key |-> Key(k), t |-> t, st |-> st, doc |-> DocOf(t, st), vs |-> vs]
FieldInScope(f) == \A j \in 1..Len(f.vs) : Applicable(f.vs[j], f.t) /\ InScopeV(f.vs[j], f.t, f.doc)

NelOf(p) == IF p \in {"flat", "nested", "attr"} THEN {1} ELSE {1, 2}
\* XML attributes hold numbers and strings, present or absent
AttrOK(p, t, st) == p = "attr" => (t \in {"int", "str"} /\ st \notin {"null", "mismatch"})

-----------------------------------------------------------------------------
(* Mode "rules" *)
InitRules == \E p \in PlaceSet, c \in Caps, fam \in FieldTypes, pol \in Pols :
               \E n \in NelOf(p), st \in Statuses(fam) :
                  /\ pol = "throw" => st \in ThrowStatuses
                  /\ AttrOK(p, TypeOf(fam), st)
                  /\ scn = [place |-> p, nel |-> n, cap |-> c, pol |-> pol, fam |-> fam, fields |-> <<Field(1, TypeOf(fam), st, <<>>)>>]

NextRules == LET f == scn.fields[1] IN
             /\ Len(f.vs) < MaxV
             /\ \E v \in Alphabet(scn.fam) :
                  /\ \A j \in 1..Len(f.vs) : f.vs[j] # v
                  /\ FieldInScope([f EXCEPT !.vs = Append(@, v)])
                  /\ scn' = [scn EXCEPT !.fields[1].vs = Append(@, v)]

-----------------------------------------------------------------------------
(* Mode "fields": profiles <<type, status, validators>> chosen to cover every outcome class of a field:             *)
(* passes & loaded, passes & not loaded, 1 / 2 / 3 failing validators, failing validators after a passing one       *)
Small == {
  <<"int", "valid", <<Req, Range1>>>>,                 \* passes, loaded
  <<"int", "absent", <<Req, Range1>>>>,                \* Required fails (1 message)
  <<"int", "above", <<Range1, RangeC, Custom>>>>,      \* 3 messages
  <<"int", "above", <<Req, Range1, Custom>>>>,         \* 2 messages after a passing validator
  <<"int", "mismatch", <<Range1>>>>,                   \* not loaded, passes
  <<"str", "len5", <<MaxSize4, MaxSizeC>>>>,           \* 2 messages
  <<"str", "len4", <<Req, MinSize2, MaxSize4>>>>,      \* passes at the bound
  <<"optint", "null", <<ReqC, Custom>>>>,              \* 1 custom message
  <<"vecint", "null", <<Req, MinSize2>>>> }            \* container, null: Required fails, MinSize passes

Large == Small \cup {
  <<"int", "upper", <<Range1, Custom>>>>,              \* passes at the upper bound
  <<"int", "lower", <<RangeC, Range1>>>>,              \* 1 message from the first of two
  <<"int", "null", <<Custom, ReqC, Req>>>>,            \* 2 Required messages after a passing lambda
  <<"str", "absent", <<MinSize2, MaxSize4, Email>>>>,  \* not loaded, passes
  <<"str", "em6", <<Req, Email, Custom>>>>,            \* the README example: 2 messages
  <<"str", "ph2", <<Phone, PhoneNP, MaxSize4>>>>,      \* 2 messages around a passing validator
  <<"str", "len1", <<MinSize2, MinSizeC, Custom>>>>,   \* 2 messages then a passing lambda
  <<"optint", "valid", <<Req, CustomC>>>>,             \* 1 message (odd value)
  <<"vecstr", "len5", <<MaxSize4, MaxSizeC>>>>,        \* container too large: 2 messages
  <<"mapint", "len2", <<Req, MinSize2>>>>,             \* container at the bound: passes
  <<"obj", "absent", <<ReqC, Custom>>>> }              \* nested object absent: 1 custom message

Profiles == IF Catalogue = "small" THEN Small ELSE Large
FieldOf(k, pr) == Field(k, pr[1], pr[2], pr[3])

InitFields == \E p \in PlaceSet, c \in Caps, pr \in Profiles, pol \in Pols :
                \E n \in NelOf(p) : scn = [place |-> p, nel |-> n, cap |-> c, pol |-> pol, fam |-> "", fields |-> <<FieldOf(1, pr)>>]

NextFields == /\ Len(scn.fields) < MaxF
              /\ \E pr \in Profiles : scn' = [scn EXCEPT !.fields = Append(@, FieldOf(Len(@) + 1, pr))]

-----------------------------------------------------------------------------
Init == IF Mode = "rules" THEN InitRules ELSE InitFields
Next == IF Mode = "rules" THEN NextRules ELSE NextFields
Spec == Init /\ [][Next]_vars

-----------------------------------------------------------------------------
(* Property-level statements, checked on A in every state (one invariant, so that A is evaluated once per state) *)
FailSet(f) == {j \in 1..Len(f.vs) : Fails(f.vs[j], f.t, f.doc)}
KthSmallest(S, k) == CHOOSE x \in S : Cardinality({y \in S : y < x}) = k - 1

WellFormed == \A k \in 1..NF(scn) : FieldInScope(scn.fields[k])

\* ValidationException iff at least one validator attached to a field fails
\* (unless the load ends with the policy error MismatchedTypes: res.mm)
ExceptionIffFailure(res, failingInst) == ~res.mm => (res.exc <=> (failingInst # {}))

\* the policy error ends the load iff the policy is ThrowError, a value is mismatched and the cap did not end the load before it
PolicyError(res, inst) ==
  LET mis == {i \in 1..Len(inst) : IsMismatch(inst[i].f.t, inst[i].f.doc)} IN
  /\ res.mm => (scn.pol = "throw" /\ mis # {} /\ ~res.exc /\ res.rep = <<>>)
  /\ (scn.pol = "throw" /\ mis # {} /\ ~res.mm) => (res.stop # 0 /\ \A i \in mis : res.stop < i)
  /\ (scn.pol = "skip" \/ mis = {}) => ~res.mm

\* exactly the failing fields; with a cap exactly min(cap, #failing) of them, the first ones in load order
ExactlyFailingFields(res, failingInst) ==
  LET reported == {res.rep[j].i : j \in 1..Len(res.rep)}
      exact == /\ reported \subseteq failingInst
               /\ Cardinality(reported) = Len(res.rep)
               /\ (scn.cap = 0 => reported = failingInst)
               /\ (scn.cap > 0 => Cardinality(reported) = Min(scn.cap, Cardinality(failingInst)))
               /\ \A i \in reported, q \in failingInst : q < i => q \in reported
               /\ \A j \in 1..(Len(res.rep) - 1) : res.rep[j].i < res.rep[j + 1].i
  IN res.mm \/ exact

\* each with exactly the messages of its failing validators in declaration order (independent formulation: the k-th
\* message is the message of the k-th smallest failing validator index)
ExactlyFailingRules(res, inst) ==
  \A j \in 1..Len(res.rep) :
     LET f == inst[res.rep[j].i].f  F == FailSet(f) IN
     /\ Len(res.rep[j].msgs) = Cardinality(F)
     /\ \A k \in 1..Cardinality(F) : res.rep[j].msgs[k] = Msg(f.vs[KthSmallest(F, k)], f.t, f.doc)

\* fields that pass are loaded normally (all of them when the load runs to its end, those before the end otherwise)
PassingFieldsLoaded(res, inst, failingInst) ==
  LET v == Vals(scn, inst, res) IN
  ~ValsUnspecified(scn, res) =>
    \A i \in 1..Len(inst) :
       (i \notin failingInst /\ (res.stop = 0 \/ i <= res.stop)) =>
          v[i] = (IF IsLoaded(inst[i].f.t, inst[i].f.doc) THEN LoadedValue(inst[i].f.t, inst[i].f.doc) ELSE PriorValue(inst[i].f.t))

\* documented semantics of the built-in validators
BuiltinSemantics ==
  \A k \in 1..NF(scn) : LET f == scn.fields[k] L == IsLoaded(f.t, f.doc) IN
    \A j \in 1..Len(f.vs) : LET v == f.vs[j] IN
      /\ (v.k = "req" => (Fails(v, f.t, f.doc) <=> ~L))
      /\ (v.k # "req" /\ ~L => ~Fails(v, f.t, f.doc))
      /\ (v.k = "range" /\ L /\ f.doc[2] \in {v.a, v.b} => ~Fails(v, f.t, f.doc))
      /\ (v.k = "range" /\ L /\ f.doc[2] \in {v.a - 1, v.b + 1} => Fails(v, f.t, f.doc))
      /\ (v.k \in {"minsize", "maxsize"} /\ L /\ Size(f.doc) = v.a => ~Fails(v, f.t, f.doc))
      /\ (v.k = "minsize" /\ L /\ Size(f.doc) = v.a - 1 => Fails(v, f.t, f.doc))
      /\ (v.k = "maxsize" /\ L /\ Size(f.doc) = v.a + 1 => Fails(v, f.t, f.doc))

\* M refines A once the errors of a field are added together; the unchanged algorithm differs from A exactly under
\* the guard of the named deviation, and then it produces exactly ADev
MFixedRefinesA(res, inst) == M(scn, inst, TRUE) = res
\* without a parent key in the path the stream deviation changes nothing
GarbleOnlyUnderGuard(res, inst) == ~DevGuard_MsgPackStreamParentKeyView(scn) => MGarbled(scn, inst) = res
MUnchangedIsADev(res, mu) ==
  /\ mu = ADev(res)
  /\ (mu # res <=> DevGuard_ValidationCapTruncatesLastField(res))

ExportField(f) == [key |-> f.key, t |-> f.t, st |-> f.st, doc |-> f.doc, vs |-> f.vs]
Export(res, inst, mu) ==
  PrintT(<<"GEN", ToJson([place |-> scn.place, nel |-> scn.nel, cap |-> scn.cap,
                          fields |-> [k \in 1..NF(scn) |-> ExportField(scn.fields[k])],
                          pol |-> scn.pol, fam |-> scn.fam, archs |-> Archs(scn),
                          exp |-> Obs(scn, inst, res),
                          expdev |-> (IF DevGuard_ValidationCapTruncatesLastField(res)
                                      THEN <<[dev |-> "Dev_ValidationCapTruncatesLastField", only |-> "any", exp |-> Obs(scn, inst, mu)]>>
                                      ELSE <<>>)
                                     \o (IF DevGuard_MsgPackStreamParentKeyView(scn)
                                         THEN <<[dev |-> "Dev_MsgPackStreamParentKeyView", only |-> "msgpack-stream", undef |-> DevUndefined_MsgPackStreamParentKeyView(scn),
                                                 exp |-> ObsGarbled(scn, inst, MGarbled(scn, inst))]>>
                                         ELSE <<>>)])>>)

\* violated conjunct = which statement failed (TLC reports the conjunct); Export is last: only consistent states are exported
Check ==
  LET inst == Instances(scn)
      res == A(scn, inst)
      mu == M(scn, inst, FALSE)
      failingInst == {i \in 1..Len(inst) : FailSet(inst[i].f) # {}}
  IN /\ WellFormed
     /\ ExceptionIffFailure(res, failingInst)
     /\ PolicyError(res, inst)
     /\ ExactlyFailingFields(res, failingInst)
     /\ ExactlyFailingRules(res, inst)
     /\ PassingFieldsLoaded(res, inst, failingInst)
     /\ BuiltinSemantics
     /\ MFixedRefinesA(res, inst)
     /\ GarbleOnlyUnderGuard(res, inst)
     /\ MUnchangedIsADev(res, mu)
     /\ Export(res, inst, mu)
=============================================================================
