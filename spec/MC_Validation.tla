---------------------------- MODULE MC_Validation ----------------------------
(* Scenario space of C17, explored by TLC.  Every reachable state is one scenario (a class = list of fields with   *)
(* validators, a document = status of every field, a placement, maxValidationErrors); it is exported with the       *)
(* observation the abstract rules A prescribe, and the property-level statements are checked on A in every state.   *)
(*   Mode "rules"  : one field; its validator list grows by one validator per step (all ordered lists of distinct   *)
(*                   validators up to MaxV) x every status of its type                                              *)
(*   Mode "fields" : the class grows by one field per step (up to MaxF), fields drawn from a catalogue of           *)
(*                   representative (validators, status) profiles, x cap                                            *)
EXTENDS Validation, Json

CONSTANTS Mode, MaxV, MaxF,
          PlaceSet,      \* placements explored
          Caps,          \* values of maxValidationErrors explored
          FieldTypes,    \* rules mode: field types explored
          Catalogue      \* fields mode: "small" | "large"

VARIABLES scn
vars == <<scn>>

-----------------------------------------------------------------------------
(* Validator alphabets (default and custom messages) *)
Req      == V("req", 0, 0, "")
ReqC     == V("req", 0, 0, "Age is required")
Range1   == V("range", 0, 10, "")
RangeC   == V("range", 1, 9, "Age should be in the range 1...9")
Custom   == V("custom", 0, 0, "")
CustomC  == V("custom", 0, 0, "rejected by the custom rule")
MinSize2 == V("minsize", 2, 0, "")
MaxSize4 == V("maxsize", 4, 0, "")
MinSizeC == V("minsize", 3, 0, "too short")
MaxSizeC == V("maxsize", 3, 0, "too long")
Email    == V("email", 0, 0, "")
EmailC   == V("email", 0, 0, "not an e-mail")
Phone    == V("phone", 7, 15, "")
PhoneNP  == V("phonenp", 7, 15, "")
PhoneC   == V("phone", 7, 15, "not a phone")

Alphabet(t) ==
  IF t = "int" THEN {Req, ReqC, Range1, RangeC, Custom}
  ELSE IF t = "optint" THEN {Req, ReqC, Custom, CustomC}
  ELSE {Req, MinSize2, MaxSize4, MinSizeC, MaxSizeC, Email, EmailC, Phone, PhoneNP, PhoneC, Custom}

(* Statuses and the document value they stand for.  int: relative to Range(0,10) and Range(1,9);                     *)
(* str: relative to MinSize(2)/MaxSize(4) and MinSize(3)/MaxSize(3)                                                  *)
DocOf(t, st) ==
  CASE st = "absent" -> <<"absent">>
    [] st = "null" -> <<"null">>
    [] st = "mismatch" -> IF t = "str" THEN <<"int", 12>> ELSE <<"str", "zz">>
    [] st = "below" -> <<"int", -1>>      \* just outside Range(0,10)
    [] st = "lower" -> <<"int", 0>>       \* at the lower bound of Range(0,10), just outside Range(1,9)
    [] st = "inlow" -> <<"int", 1>>       \* just inside Range(0,10), at the lower bound of Range(1,9)
    [] st = "valid" -> <<"int", 5>>
    [] st = "even" -> <<"int", 6>>
    [] st = "inhigh" -> <<"int", 9>>
    [] st = "upper" -> <<"int", 10>>
    [] st = "above" -> <<"int", 11>>
    [] st = "len1" -> <<"str", "a">>
    [] st = "len2" -> <<"str", "ab">>
    [] st = "len3" -> <<"str", "abc">>
    [] st = "len4" -> <<"str", "abcd">>
    [] st = "len5" -> <<"str", "abcde">>
    [] st = "space" -> <<"str", "a b">>
    [] st = "em1" -> <<"str", "simple@example.com">>
    [] st = "em2" -> <<"str", "x@example.com">>
    [] st = "em3" -> <<"str", "abc.example.com">>
    [] st = "em4" -> <<"str", "a@b@example.com">>
    [] st = "em5" -> <<"str", "first last@example.com">>
    [] st = "em6" -> <<"str", "smith 2000@mail.com">>
    [] st = "em7" -> <<"str", "very.common@example.com">>
    [] st = "ph1" -> <<"str", "+555 (55) 555-55-55">>
    [] st = "ph2" -> <<"str", "(55) 555 55 55">>
    [] st = "ph3" -> <<"str", "555 5 55 55">>
    [] st = "ph4" -> <<"str", "+12345">>
    [] st = "ph5" -> <<"str", "+1234567890123">>
    [] st = "ph6" -> <<"str", "+44 20 7123 1234">>
    [] st = "ph7" -> <<"str", "+1 (555) 555-55-55">>

Statuses(t) ==
  IF t = "int" THEN {"below", "lower", "inlow", "valid", "even", "inhigh", "upper", "above", "absent", "null", "mismatch"}
  ELSE IF t = "optint" THEN {"valid", "even", "absent", "null", "mismatch"}
  ELSE {"len1", "len2", "len3", "len4", "len5", "space", "absent", "null", "mismatch",
        "em1", "em2", "em3", "em4", "em5", "em6", "em7", "ph1", "ph2", "ph3", "ph4", "ph5", "ph6", "ph7"}

Key(k) == "f" \o ToString(k)
Field(k, t, st, vs) == [key |-> Key(k), t |-> t, st |-> st, doc |-> DocOf(t, st), vs |-> vs]
FieldInScope(f) == \A j \in 1..Len(f.vs) : Applicable(f.vs[j], f.t) /\ InScopeV(f.vs[j], f.t, f.doc)

NelOf(p) == IF p \in {"flat", "nested"} THEN {1} ELSE {1, 2}

-----------------------------------------------------------------------------
(* Mode "rules" *)
InitRules == \E p \in PlaceSet, c \in Caps, t \in FieldTypes :
               \E n \in NelOf(p), st \in Statuses(t) :
                  scn = [place |-> p, nel |-> n, cap |-> c, fields |-> <<Field(1, t, st, <<>>)>>]

NextRules == LET f == scn.fields[1] IN
             /\ Len(f.vs) < MaxV
             /\ \E v \in Alphabet(f.t) :
                  /\ \A j \in 1..Len(f.vs) : f.vs[j] # v
                  /\ FieldInScope([f EXCEPT !.vs = Append(@, v)])
                  /\ scn' = [scn EXCEPT !.fields[1].vs = Append(@, v)]

-----------------------------------------------------------------------------
(* Mode "fields": profiles <<type, status, validators>> chosen to cover every outcome class of a field:             *)
(* passes & loaded, passes & not loaded, 1 / 2 / 3 failing validators, failing validators after a passing one       *)
Small == {
  <<"int", "valid", <<Req, Range1>>>>,                 \* passes, loaded
  <<"int", "absent", <<Req, Range1>>>>,                \* Required fails (1 message)
  <<"int", "above", <<Range1, RangeC, Custom>>>>,      \* 3 messages
  <<"int", "above", <<Req, Range1, Custom>>>>,         \* 2 messages after a passing validator
  <<"int", "mismatch", <<Range1>>>>,                   \* not loaded, passes
  <<"str", "len5", <<MaxSize4, MaxSizeC>>>>,           \* 2 messages
  <<"str", "len4", <<Req, MinSize2, MaxSize4>>>>,      \* passes at the bound
  <<"optint", "null", <<ReqC, Custom>>>> }             \* 1 custom message

Large == Small \cup {
  <<"int", "upper", <<Range1, Custom>>>>,              \* passes at the upper bound
  <<"int", "lower", <<RangeC, Range1>>>>,              \* 1 message from the first of two
  <<"int", "null", <<Custom, ReqC, Req>>>>,            \* 2 Required messages after a passing lambda
  <<"str", "absent", <<MinSize2, MaxSize4, Email>>>>,  \* not loaded, passes
  <<"str", "em6", <<Req, Email, Custom>>>>,            \* the README example: 2 messages
  <<"str", "ph2", <<Phone, PhoneNP, MaxSize4>>>>,      \* 2 messages around a passing validator
  <<"str", "len1", <<MinSize2, MinSizeC, Custom>>>>,   \* 2 messages then a passing lambda
  <<"optint", "valid", <<Req, CustomC>>>> }            \* 1 message (odd value)

Profiles == IF Catalogue = "small" THEN Small ELSE Large
FieldOf(k, pr) == Field(k, pr[1], pr[2], pr[3])

InitFields == \E p \in PlaceSet, c \in Caps, pr \in Profiles :
                \E n \in NelOf(p) : scn = [place |-> p, nel |-> n, cap |-> c, fields |-> <<FieldOf(1, pr)>>]

NextFields == /\ Len(scn.fields) < MaxF
              /\ \E pr \in Profiles : scn' = [scn EXCEPT !.fields = Append(@, FieldOf(Len(@) + 1, pr))]

-----------------------------------------------------------------------------
Init == IF Mode = "rules" THEN InitRules ELSE InitFields
Next == IF Mode = "rules" THEN NextRules ELSE NextFields
Spec == Init /\ [][Next]_vars

-----------------------------------------------------------------------------
(* Property-level statements, checked on A in every state (one invariant, so that A is evaluated once per state) *)
FailSet(f) == {j \in 1..Len(f.vs) : Fails(f.vs[j], f.t, f.doc)}
KthSmallest(S, k) == CHOOSE x \in S : Cardinality({y \in S : y < x}) = k - 1

WellFormed == \A k \in 1..NF(scn) : FieldInScope(scn.fields[k])

\* ValidationException iff at least one validator attached to a field fails
ExceptionIffFailure(res, failingInst) == res.exc <=> (failingInst # {})

\* exactly the failing fields; with a cap exactly min(cap, #failing) of them, the first ones in load order
ExactlyFailingFields(res, failingInst) ==
  LET reported == {res.rep[j].i : j \in 1..Len(res.rep)} IN
  /\ reported \subseteq failingInst
  /\ Cardinality(reported) = Len(res.rep)
  /\ (scn.cap = 0 => reported = failingInst)
  /\ (scn.cap > 0 => Cardinality(reported) = Min(scn.cap, Cardinality(failingInst)))
  /\ \A i \in reported, q \in failingInst : q < i => q \in reported
  /\ \A j \in 1..(Len(res.rep) - 1) : res.rep[j].i < res.rep[j + 1].i

\* each with exactly the messages of its failing validators in declaration order (independent formulation: the k-th
\* message is the message of the k-th smallest failing validator index)
ExactlyFailingRules(res, inst) ==
  \A j \in 1..Len(res.rep) :
     LET f == inst[res.rep[j].i].f  F == FailSet(f) IN
     /\ Len(res.rep[j].msgs) = Cardinality(F)
     /\ \A k \in 1..Cardinality(F) : res.rep[j].msgs[k] = Msg(f.vs[KthSmallest(F, k)], f.t, f.doc)

\* fields that pass are loaded normally (all of them when the load runs to its end, those before the end otherwise)
PassingFieldsLoaded(res, inst, failingInst) ==
  LET v == Vals(scn, inst, res) IN
  ~ValsUnspecified(scn, res) =>
    \A i \in 1..Len(inst) :
       (i \notin failingInst /\ (res.stop = 0 \/ i <= res.stop)) =>
          v[i] = (IF IsLoaded(inst[i].f.t, inst[i].f.doc) THEN LoadedValue(inst[i].f.t, inst[i].f.doc) ELSE PriorValue(inst[i].f.t))

\* documented semantics of the built-in validators
BuiltinSemantics ==
  \A k \in 1..NF(scn) : LET f == scn.fields[k] L == IsLoaded(f.t, f.doc) IN
    \A j \in 1..Len(f.vs) : LET v == f.vs[j] IN
      /\ (v.k = "req" => (Fails(v, f.t, f.doc) <=> ~L))
      /\ (v.k # "req" /\ ~L => ~Fails(v, f.t, f.doc))
      /\ (v.k = "range" /\ L /\ f.doc[2] \in {v.a, v.b} => ~Fails(v, f.t, f.doc))
      /\ (v.k = "range" /\ L /\ f.doc[2] \in {v.a - 1, v.b + 1} => Fails(v, f.t, f.doc))
      /\ (v.k \in {"minsize", "maxsize"} /\ L /\ Len(f.doc[2]) = v.a => ~Fails(v, f.t, f.doc))
      /\ (v.k = "minsize" /\ L /\ Len(f.doc[2]) = v.a - 1 => Fails(v, f.t, f.doc))
      /\ (v.k = "maxsize" /\ L /\ Len(f.doc[2]) = v.a + 1 => Fails(v, f.t, f.doc))

\* M refines A once the errors of a field are added together; the unchanged algorithm differs from A exactly under
\* the guard of the named deviation, and then it produces exactly ADev
MFixedRefinesA(res, inst) == M(scn, inst, TRUE) = res
\* without a parent key in the path the stream deviation changes nothing
GarbleOnlyUnderGuard(res, inst) == ~DevGuard_MsgPackStreamParentKeyView(scn) => MGarbled(scn, inst) = res
MUnchangedIsADev(res, mu) ==
  /\ mu = ADev(res)
  /\ (mu # res <=> DevGuard_ValidationCapTruncatesLastField(res))

ExportField(f) == [key |-> f.key, t |-> f.t, st |-> f.st, doc |-> f.doc, vs |-> f.vs]
Export(res, inst, mu) ==
  PrintT(<<"GEN", ToJson([place |-> scn.place, nel |-> scn.nel, cap |-> scn.cap,
                          fields |-> [k \in 1..NF(scn) |-> ExportField(scn.fields[k])],
                          archs |-> Archs(scn),
                          exp |-> Obs(scn, inst, res),
                          expdev |-> (IF DevGuard_ValidationCapTruncatesLastField(res)
                                      THEN <<[dev |-> "Dev_ValidationCapTruncatesLastField", only |-> "any", exp |-> Obs(scn, inst, mu)]>>
                                      ELSE <<>>)
                                     \o (IF DevGuard_MsgPackStreamParentKeyView(scn)
                                         THEN <<[dev |-> "Dev_MsgPackStreamParentKeyView", only |-> "msgpack-stream", undef |-> DevUndefined_MsgPackStreamParentKeyView(scn),
                                                 exp |-> ObsGarbled(scn, inst, MGarbled(scn, inst))]>>
                                         ELSE <<>>)])>>)

\* violated conjunct = which statement failed (TLC reports the conjunct); Export is last: only consistent states are exported
Check ==
  LET inst == Instances(scn)
      res == A(scn, inst)
      mu == M(scn, inst, FALSE)
      failingInst == {i \in 1..Len(inst) : FailSet(inst[i].f) # {}}
  IN /\ WellFormed
     /\ ExceptionIffFailure(res, failingInst)
     /\ ExactlyFailingFields(res, failingInst)
     /\ ExactlyFailingRules(res, inst)
     /\ PassingFieldsLoaded(res, inst, failingInst)
     /\ BuiltinSemantics
     /\ MFixedRefinesA(res, inst)
     /\ GarbleOnlyUnderGuard(res, inst)
     /\ MUnchangedIsADev(res, mu)
     /\ Export(res, inst, mu)
=============================================================================
