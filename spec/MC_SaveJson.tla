----------------------------- MODULE MC_SaveJson -----------------------------
(* Save scenarios of the JSON archive (C08, C01): typed values at the numeric     *)
(* extremes, strings over the Unicode range, containers, nested objects, base    *)
(* classes x output configuration (pretty printing, padding, encoding, BOM).     *)
(* Invariants check that the specification's own renderer/parser agree on the    *)
(* document each script denotes.                                                 *)
EXTENDS SaveScript, JsonFormat, JsonCorpus, Json

CONSTANT MaxMembers

VARIABLES root, opt, n
vars == <<root, opt, n>>

IntValsOf(T) == { v \in JInts : IntFits(v[2], v[3], T) }
Typed ==
  UNION { { <<T, v>> : v \in IntValsOf(T) } : T \in IntTypes }
  \cup { <<"bool", <<"bool", b>>>> : b \in BOOLEAN } \cup { <<"null", <<"nil">>>> }
  \cup { <<"f64", v>> : v \in JFloats } \cup { <<"f32", <<"f32", FloatTable[i].f32>>>> : i \in 1..Len(FloatTable) }
  \cup { <<"str", v>> : v \in JStrings }
  \cup { <<"f64", <<"f64", B8(127,248,0,0,0,0,0,0)>>>>, <<"f64", <<"f64", B8(127,240,0,0,0,0,0,0)>>>>, <<"f64", <<"f64", B8(255,240,0,0,0,0,0,0)>>>>,
         <<"f32", <<"f32", <<127, 192, 0, 0>>>>>> }       \* NaN, +Inf, -Inf: not representable in JSON
  \cup { <<"vec_i32", <<"arr", a>>>> : a \in { <<>>, <<JU(1), JU(-3), JU(40000)>> } }
  \cup { <<"vec_str", <<"arr", <<JS(<<34, 208, 159>>), JS(<<>>)>>>>>>,
         <<"map_str_i32", <<"map", <<<<JS(<<97>>), JU(1)>>, <<JS(<<208, 159>>), JU(300)>>>>>>>>,
         <<"map_i32_str", <<"map", <<<<JU(-5), JS(<<120>>)>>, <<JU(200), JS(<<121>>)>>>>>>>> }
  \* further std types (serialized like a base type, see LoadScript!TypeAlias)
  \cup { <<"opt_i32", JU(5)>>, <<"uptr_i32", JU(-3)>>, <<"atomic_i32", JU(100)>>, <<"sptr_str", JS(<<120, 121>>)>>, <<"wstr", JS(<<208, 159, 120>>)>>,
         <<"enum_color", JS(<<71, 114, 101, 101, 110>>)>>, <<"enum_color", JS(<<66, 108, 117, 101>>)>>,
         <<"set_i32", <<"arr", <<JU(-3), JU(1), JU(40)>>>>>>, <<"arr3_i32", <<"arr", <<JU(1), JU(2), JU(3)>>>>>>, <<"deque_i32", <<"arr", <<JU(7), JU(-1)>>>>>>,
         <<"list_str", <<"arr", <<JS(<<120>>), JS(<<121, 122>>)>>>>>>,
         <<"pair_str_i32", <<"map", <<<<JS(<<107, 101, 121>>), JS(<<107>>)>>, <<JS(<<118, 97, 108, 117, 101>>), JU(9)>>>>>>>>,
         <<"tuple_i32_str_f64", <<"arr", <<JU(1), JS(<<113>>), <<"f64", B8(63,248,0,0,0,0,0,0)>>>>>>>> }

Leaf(tv) == [k |-> "leaf", t |-> tv[1], v |-> tv[2]]
ReqOp(key, tv) == [op |-> "req", ks |-> key, t |-> tv[1], v |-> tv[2]]
ElemOp(tv) == [op |-> "elem", t |-> tv[1], v |-> tv[2]]

Opts == { [fmt |-> FALSE, padChar |-> 32, padNum |-> 0, enc |-> "utf8", bom |-> FALSE],
          [fmt |-> TRUE, padChar |-> 32, padNum |-> 2, enc |-> "utf8", bom |-> TRUE],
          [fmt |-> TRUE, padChar |-> 9, padNum |-> 1, enc |-> "utf16le", bom |-> TRUE],
          [fmt |-> FALSE, padChar |-> 32, padNum |-> 0, enc |-> "utf16be", bom |-> FALSE],
          [fmt |-> TRUE, padChar |-> 32, padNum |-> 4, enc |-> "utf32le", bom |-> FALSE],
          [fmt |-> FALSE, padChar |-> 32, padNum |-> 0, enc |-> "utf32be", bom |-> TRUE],
          [fmt |-> TRUE, padChar |-> 32, padNum |-> 3, enc |-> "utf8", bom |-> FALSE] }      \* pretty UTF-8 without BOM: stream bytes = memory bytes

Init == /\ n = 0 /\ opt \in Opts
        /\ \/ \E tv \in Typed : root = Leaf(tv)
           \/ \E tv \in Typed : root = [k |-> "arr", ops |-> <<ElemOp(tv), ElemOp(<<"i32", JU(7)>>)>>]
           \/ \E tv \in Typed : root = [k |-> "obj", ops |-> <<ReqOp(<<97>>, tv)>>]
           \/ root = [k |-> "obj", ops |-> <<>>] \/ root = [k |-> "arr", ops |-> <<>>]

Members == { [op |-> "base", ops |-> <<ReqOp(<<66>>, <<"u8", JU(1)>>), ReqOp(<<67>>, <<"str", JS(<<226, 130, 172>>)>>)>>],
             ReqOp(<<107>>, <<"u32", <<"int", FALSE, B8(0,0,0,0,238,107,40,0)>>>>),
             [op |-> "req", ki |-> -7, t |-> "f64", v |-> <<"f64", B8(63,248,0,0,0,0,0,0)>>],
             [op |-> "obj", ks |-> <<111>>, ops |-> <<ReqOp(<<120>>, <<"i64", <<"int", TRUE, B8(128,0,0,0,0,0,0,0)>>>>), ReqOp(<<34, 92>>, <<"null", <<"nil">>>>)>>],
             [op |-> "arr", ks |-> <<114>>, ops |-> <<ElemOp(<<"str", JS(<<10, 9, 34>>)>>), ElemOp(<<"u64", <<"int", FALSE, B8(255,255,255,255,255,255,255,255)>>>>),
                                                      [op |-> "arr", ops |-> <<>>], [op |-> "obj", ops |-> <<>>]>>] }
Next == /\ root.k = "obj" /\ n < MaxMembers
        /\ \E mbr \in Members : (\A i \in 1..Len(root.ops) : root.ops[i] # mbr) /\ root' = [root EXCEPT !.ops = Append(@, mbr)]
        /\ n' = n + 1 /\ UNCHANGED opt
Spec == Init /\ [][Next]_vars

Doc == DocOf(TreeOfRoot(root))
RECURSIVE NonFin(_)
NonFin(v) == IF v[1] = "f64" THEN F64Exp(v[2]) = 2047 ELSE IF v[1] = "f32" THEN F32Exp(v[2]) = 255
             ELSE IF v[1] = "arr" THEN \E i \in 1..Len(v[2]) : NonFin(v[2][i])
             ELSE IF v[1] = "map" THEN \E i \in 1..Len(v[2]) : NonFin(v[2][i][2]) ELSE FALSE
HasNonFiniteDoc == NonFin(Doc)
\* the spec's renderer and strict parser agree on the document the script denotes, in the chosen encoding
SpecRoundTrip == HasNonFiniteDoc \/
  LET text == Render(Doc, [ws |-> IF opt.fmt THEN 2 ELSE 0, esc |-> 0, order |-> 0], 0)
      d == DecodeText(EncodeText(text, opt.enc, opt.bom), opt.enc, opt.bom)
      r == ParseJson(d[2])
  IN d[1] /\ r.ok /\ Denotes(r.v, Doc)

RtPol == [mm |-> "throw", ov |-> "throw", arch |-> "json", dev |-> ""]
\* named deviation Dev_JsonBomlessUtf16Undetectable: a BOM-less UTF-16/32 text whose first characters are not ASCII cannot be detected on load
Undetectable == ~HasNonFiniteDoc /\ ~JsonDetectable(Render(Doc, [ws |-> IF opt.fmt THEN 2 ELSE 0, esc |-> 0, order |-> 0], 0), opt.enc, opt.bom)
Export == PrintT(<<"GEN", ToJson([root |-> root, opt |-> opt, exp |-> Exec(Doc, root, RtPol), expsave |-> IF HasNonFiniteDoc THEN "throws" ELSE "ok",
                                 expdev |-> IF Undetectable THEN <<[dev |-> "Dev_JsonBomlessUtf16Undetectable", exp |-> [ev |-> <<>>, exc |-> <<"ser", "Parsing error">>]]>> ELSE <<>>])>>)
ExportWide == HasNonFiniteDoc \/ \A wt \in WideTypes : WideRoot(root, wt) = root \/
                 PrintT(<<"GEN", ToJson([root |-> WideRoot(root, wt), opt |-> opt, exp |-> Exec(Doc, root, RtPol), expsave |-> "ok",
                                 expdev |-> IF Undetectable THEN <<[dev |-> "Dev_JsonBomlessUtf16Undetectable", exp |-> [ev |-> <<>>, exc |-> <<"ser", "Parsing error">>]]>> ELSE <<>>])>>)
=============================================================================
