\* Vacuity guard of C19: SUMMARIES=spec/Threads_selftest.ndjson (a warmed-up operation with an unguarded update of
\* scratch_buffer).  TLC MUST report InvNoRace violated (exit 12) with the racing interleaving.
SPECIFICATION Spec
CONSTANTS
  T = 2
  Fuse = FALSE
INVARIANTS InvNoRace InvSequentialEquivalence InvGuardDiscipline InvProgress
