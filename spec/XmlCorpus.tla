------------------------------ MODULE XmlCorpus ------------------------------
(* Values of the XML archive's data model used by the XML checks: root is an object or an array;      *)
(* strings range over XML 1.0 characters (markup characters, quotes, CR/LF/TAB, 2/3/4-byte UTF-8).    *)
EXTENDS MsgPackFormat
XU(n) == IntSmall(n)
XS(x) == <<"str", x>>
X8(a, b, c, d, e, f, g, h) == <<a, b, c, d, e, f, g, h>>
XStrings == { XS(<<97, 98>>), XS(<<60, 38, 62, 34, 39>>), XS(<<97, 10, 9, 98>>), XS(<<32, 97, 32>>), XS(<<208, 159>>), XS(<<226, 130, 172>>),
              XS(<<240, 159, 152, 128>>), XS(<<239, 191, 189>>), XS(<<93, 93, 62>>) }
XStringsCr == { XS(<<97, 13, 98>>), XS(<<97, 13, 10, 98>>) }        \* carriage return: must be written as a character reference
XInts == { XU(0), XU(-1), XU(127), XU(-128), XU(65535), XU(2147483647), <<"int", FALSE, X8(0,0,0,0,238,107,40,0)>>,
           <<"int", FALSE, X8(255,255,255,255,255,255,255,255)>>, <<"int", TRUE, X8(128,0,0,0,0,0,0,0)>> }
XFloats == { <<"f64", X8(63,211,51,51,51,51,51,52)>>, <<"f64", X8(63,248,0,0,0,0,0,0)>>, <<"f64", X8(192,2,0,0,0,0,0,0)>>, <<"f64", X8(0,0,0,0,0,0,0,0)>>, <<"f64", X8(64,144,0,0,0,0,0,0)>>,
             <<"f64", X8(63,208,0,0,0,0,0,0)>> }
XScalars == { <<"bool", TRUE>>, <<"bool", FALSE>> } \cup XStrings \cup XInts \cup XFloats
XDocs == { <<"map", <<<<XS(<<97>>), v>>>>>> : v \in XScalars \cup XStringsCr }
  \cup { <<"arr", <<XU(1), XS(<<120>>), <<"arr", <<XU(2)>>>>, <<"map", <<<<XS(<<113>>), XU(3)>>>>>>>>>>,
         <<"map", <<<<XS(<<97>>), XU(1)>>, <<XS(<<208, 159>>), XS(<<60>>)>>, <<XS(<<99>>), <<"arr", <<XU(1), <<"f64", X8(63,248,0,0,0,0,0,0)>>>>>>>>,
                     <<XS(<<100, 45, 49, 46, 120>>), <<"map", <<<<XS(<<95, 120>>), <<"bool", TRUE>>>>>>>>>>>>>> }
=============================================================================
