------------------------------ MODULE JsonCorpus ------------------------------
(* Values of the JSON data model used by the JSON checks (subset of the ADT of MsgPackFormat). *)
EXTENDS MsgPackFormat

JU(n) == IntSmall(n)
JS(x) == <<"str", x>>
B8(a, b, c, d, e, f, g, h) == <<a, b, c, d, e, f, g, h>>
\* strings: ASCII, quote/backslash/control characters, markup characters, 2/3/4-byte UTF-8, U+FFFF, U+10FFFF, '/'
JStrings == { JS(<<>>), JS(<<97, 98>>), JS(<<34, 92, 47>>), JS(<<10, 9, 13, 1, 31>>), JS(<<60, 38, 62, 39>>),
              JS(<<208, 159>>), JS(<<226, 130, 172>>), JS(<<240, 159, 152, 128>>), JS(<<239, 191, 191>>), JS(<<244, 143, 191, 191>>),
              JS(<<127, 194, 128>>), JS(<<97, 0, 98>>), JS(<<0>>) }        \* incl. U+0000 (written \\u0000)
JInts == { JU(0), JU(-1), JU(127), JU(-128), JU(65535), JU(2147483647), JU(-2147483647),
           <<"int", FALSE, B8(0,0,0,0,255,255,255,255)>>, <<"int", FALSE, B8(0,0,0,0,238,107,40,0)>>,     \* 4294967295, 4000000000
           <<"int", FALSE, B8(127,255,255,255,255,255,255,255)>>, <<"int", TRUE, B8(128,0,0,0,0,0,0,0)>>, <<"int", FALSE, B8(255,255,255,255,255,255,255,255)>> }
JFloats == { <<"f64", B8(63,248,0,0,0,0,0,0)>>, <<"f64", B8(192,2,0,0,0,0,0,0)>>, <<"f64", B8(0,0,0,0,0,0,0,0)>>, <<"f64", B8(64,144,0,0,0,0,0,0)>>, <<"f64", B8(63,208,0,0,0,0,0,0)>> }
JScalars == {<<"nil">>, <<"bool", TRUE>>, <<"bool", FALSE>>} \cup JStrings \cup JInts \cup JFloats
JCompound == { <<"arr", <<>>>>, <<"map", <<>>>>, <<"arr", <<JU(1), JS(<<120>>), <<"nil">>, <<"arr", <<>>>>, <<"map", <<>>>>>>>>,
               <<"map", <<<<JS(<<97>>), JU(1)>>, <<JS(<<208, 159>>), JS(<<34>>)>>, <<JS(<<99>>), <<"arr", <<JU(1), <<"f64", B8(63,248,0,0,0,0,0,0)>>>>>>>>,
                           <<JS(<<100>>), <<"map", <<<<JS(<<120>>), <<"bool", TRUE>>>>>>>>>>>>>> }
JCorpus == JScalars \cup JCompound
=============================================================================
