SPECIFICATION Spec
CONSTANTS
  Mode = "fields"
  MaxV = 3
  MaxF = 3
  PlaceSet = {"flat", "nested", "arr", "map", "rootarr"}
  Caps = {0, 1, 2, 3}
  FieldTypes = {"int", "str", "optint"}
  Catalogue = "small"
  Pols = {"skip", "throw"}
INVARIANTS Check
