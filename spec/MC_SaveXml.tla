----------------------------- MODULE MC_SaveXml -----------------------------
(* Save scenarios of the XML archive (C08, C01): typed values x containers x nested objects x output configuration. *)
EXTENDS SaveScript, XmlFormat, XmlCorpus, Json
CONSTANT MaxMembers
VARIABLES root, opt, n
vars == <<root, opt, n>>

IntValsOf(T) == { v \in XInts : IntFits(v[2], v[3], T) }
Typed ==
  UNION { { <<T, v>> : v \in IntValsOf(T) } : T \in IntTypes }
  \cup { <<"bool", <<"bool", b>>>> : b \in BOOLEAN } \cup { <<"null", <<"nil">>>> }
  \cup { <<"f64", v>> : v \in XFloats } \cup { <<"f32", <<"f32", XmlFloatTable[i].f32>>>> : i \in XmlFloat32Rows }
  \cup { <<"str", v>> : v \in XStrings \cup XStringsCr \cup {XS(<<>>)} }
  \cup { <<"vec_i32", <<"arr", a>>>> : a \in { <<>>, <<XU(1), XU(-3), XU(40000)>> } }
  \cup { <<"vec_str", <<"arr", <<XS(<<34, 208, 159>>), XS(<<120>>)>>>>>>,
         <<"map_str_i32", <<"map", <<<<XS(<<97>>), XU(1)>>, <<XS(<<208, 159>>), XU(300)>>>>>>>> }
  \* further std types (serialized like a base type, see LoadScript!TypeAlias)
  \cup { <<"opt_i32", XU(5)>>, <<"uptr_i32", XU(-3)>>, <<"atomic_i32", XU(100)>>, <<"sptr_str", XS(<<120, 121>>)>>, <<"wstr", XS(<<208, 159, 120>>)>>,
         <<"enum_color", XS(<<71, 114, 101, 101, 110>>)>>, <<"enum_color", XS(<<66, 108, 117, 101>>)>>,
         <<"set_i32", <<"arr", <<XU(-3), XU(1), XU(40)>>>>>>, <<"arr3_i32", <<"arr", <<XU(1), XU(2), XU(3)>>>>>>, <<"deque_i32", <<"arr", <<XU(7), XU(-1)>>>>>>,
         <<"list_str", <<"arr", <<XS(<<120>>), XS(<<121, 122>>)>>>>>>,
         <<"pair_str_i32", <<"map", <<<<XS(<<107, 101, 121>>), XS(<<107>>)>>, <<XS(<<118, 97, 108, 117, 101>>), XU(9)>>>>>>>>,
         <<"tuple_i32_str_f64", <<"arr", <<XU(1), XS(<<113>>), <<"f64", <<63, 248, 0, 0, 0, 0, 0, 0>>>>>>>>>> }
ReqOp(key, tv) == [op |-> "req", ks |-> key, t |-> tv[1], v |-> tv[2]]
ElemOp(tv) == [op |-> "elem", t |-> tv[1], v |-> tv[2]]
Opts == { [fmt |-> FALSE, padChar |-> 32, padNum |-> 0, enc |-> "utf8", bom |-> FALSE],
          [fmt |-> TRUE, padChar |-> 32, padNum |-> 2, enc |-> "utf8", bom |-> TRUE],
          [fmt |-> TRUE, padChar |-> 9, padNum |-> 1, enc |-> "utf16le", bom |-> TRUE],
          [fmt |-> FALSE, padChar |-> 32, padNum |-> 0, enc |-> "utf16be", bom |-> FALSE],
          [fmt |-> TRUE, padChar |-> 32, padNum |-> 4, enc |-> "utf32le", bom |-> FALSE],
          [fmt |-> FALSE, padChar |-> 32, padNum |-> 0, enc |-> "utf32be", bom |-> TRUE],
          [fmt |-> TRUE, padChar |-> 32, padNum |-> 3, enc |-> "utf8", bom |-> FALSE] }      \* pretty UTF-8 without BOM: stream bytes = memory bytes
Init == /\ n = 0 /\ opt \in Opts
        /\ \/ \E tv \in Typed : root = [k |-> "arr", ops |-> <<ElemOp(tv), ElemOp(<<"i32", XU(7)>>)>>]
           \/ \E tv \in Typed : root = [k |-> "obj", ops |-> <<ReqOp(<<97>>, tv)>>]
           \/ root = [k |-> "obj", ops |-> <<>>] \/ root = [k |-> "arr", ops |-> <<>>]
AttrOp(key, tv) == [op |-> "attr", ks |-> key, t |-> tv[1], v |-> tv[2]]
Members == { AttrOp(<<120, 49>>, <<"i32", XU(300)>>), AttrOp(<<120, 50>>, <<"str", XS(<<97, 9, 98, 10, 34, 99, 39, 60, 38, 62, 13>>)>>),
             AttrOp(<<120, 51>>, <<"f64", <<"f64", X8(63,248,0,0,0,0,0,0)>>>>), AttrOp(<<120, 52>>, <<"bool", <<"bool", TRUE>>>>),
             AttrOp(<<120, 53>>, <<"u64", <<"int", FALSE, X8(255,255,255,255,255,255,255,255)>>>>),
             AttrOp(<<120, 54>>, <<"f64", <<"f64", X8(63,211,51,51,51,51,51,52)>>>>),         \* an attribute that needs 17 significant digits
             [op |-> "obj", ks |-> <<112>>, ops |-> <<AttrOp(<<121>>, <<"i8", XU(-128)>>), ReqOp(<<122>>, <<"str", XS(<<208, 159>>)>>)>>],
             [op |-> "base", ops |-> <<ReqOp(<<66>>, <<"u8", XU(1)>>), ReqOp(<<67>>, <<"str", XS(<<226, 130, 172>>)>>)>>],
             ReqOp(<<107>>, <<"u32", <<"int", FALSE, X8(0,0,0,0,238,107,40,0)>>>>),
             [op |-> "obj", ks |-> <<111>>, ops |-> <<ReqOp(<<120>>, <<"i64", <<"int", TRUE, X8(128,0,0,0,0,0,0,0)>>>>), ReqOp(<<121>>, <<"null", <<"nil">>>>)>>],
             [op |-> "arr", ks |-> <<114>>, ops |-> <<ElemOp(<<"str", XS(<<10, 9, 34>>)>>), ElemOp(<<"u64", <<"int", FALSE, X8(255,255,255,255,255,255,255,255)>>>>),
                                                      [op |-> "arr", ops |-> <<ElemOp(<<"i8", XU(1)>>)>>], [op |-> "obj", ops |-> <<ReqOp(<<122>>, <<"bool", <<"bool", FALSE>>>>)>>]>>] }
Next == /\ root.k = "obj" /\ n < MaxMembers
        /\ \E mbr \in Members : (\A i \in 1..Len(root.ops) : root.ops[i] # mbr) /\ root' = [root EXCEPT !.ops = Append(@, mbr)]
        /\ n' = n + 1 /\ UNCHANGED opt
Spec == Init /\ [][Next]_vars
Doc == DocOf(TreeOfRoot(root))
SpecRoundTrip ==
  LET tree == XmlDoc(Doc)
      text == XRender(tree, [indent |-> IF opt.fmt THEN 2 ELSE 0, ref |-> 0, quote |-> 34, empty |-> 0, decl |-> 1], opt.enc)
      d == DecodeText(EncodeText(text, opt.enc, opt.bom), opt.enc, opt.bom)
      r == ParseXml(d[2])
  IN d[1] /\ r.ok /\ SameTree(r.el, tree)
RtPol == [mm |-> "throw", ov |-> "throw", arch |-> "xml", dev |-> ""]
\* named deviation Dev_XmlCrNotEscaped: the document that a parser sees has CR / CRLF normalised to LF
RECURSIVE NormCrDoc(_)
NormCrDoc(v) ==
  IF v[1] = "str" THEN <<"str", EncodeCps(NormEol(StrBytesToCps(v[2])[2], 1), "utf8", 1)>>
  ELSE IF v[1] = "arr" THEN <<"arr", [i \in 1..Len(v[2]) |-> NormCrDoc(v[2][i])]>>
  ELSE IF v[1] = "map" THEN <<"map", [i \in 1..Len(v[2]) |-> <<v[2][i][1], IF v[2][i][1][1] = "attr" THEN v[2][i][2] ELSE NormCrDoc(v[2][i][2])>>]>>     \* attribute values carry CR as &#13;
  ELSE v
Export == PrintT(<<"GEN", ToJson([root |-> root, opt |-> opt, exp |-> Exec(Doc, root, RtPol), expsave |-> "ok",
                                 expdev |-> IF NormCrDoc(Doc) = Doc THEN <<>> ELSE <<[dev |-> "Dev_XmlCrNotEscaped", exp |-> Exec(NormCrDoc(Doc), root, RtPol)]>>])>>)
ExportWide == \A wt \in WideTypes : WideRoot(root, wt) = root \/
                 PrintT(<<"GEN", ToJson([root |-> WideRoot(root, wt), opt |-> opt, exp |-> Exec(Doc, root, RtPol), expsave |-> "ok",
                                 expdev |-> IF NormCrDoc(Doc) = Doc THEN <<>> ELSE <<[dev |-> "Dev_XmlCrNotEscaped", exp |-> Exec(NormCrDoc(Doc), root, RtPol)]>>])>>)
=============================================================================
