SPECIFICATION Spec
CONSTANTS
  YLO = 1890
  YHI = 2110
  PP = 7
INVARIANTS CalInv EpochInv BigInv PrintParse
