SPECIFICATION Spec
CONSTANTS
  YLO = 1890
  YHI = 2110
  PP = 7
  NEG = FALSE
INVARIANTS CalInv EpochInv BigInv PrintParse
