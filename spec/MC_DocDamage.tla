---------------------------- MODULE MC_DocDamage ----------------------------
(* C10 for the text archives: invalid documents.  Valid documents (chosen by   *)
(* MC_LoadScript, passed in through IOEnv.DOCS) are damaged in every way of a  *)
(* small catalogue - cut short by k bytes, one byte overwritten, a tail        *)
(* appended behind the complete root (a second value, a stray closing token,   *)
(* text, a separator, white space, a comment) - and exported.  The property    *)
(* decided with them is an equivalence: the memory loader and every stream     *)
(* kind must agree on each of these byte strings (same error category, or the  *)
(* same delivered events); which outcome is right is the business of C08/C02.  *)
EXTENDS Naturals, Sequences, Json, IOUtils, TLC

CONSTANTS Arch, MaxCuts, FlipBytes, MaxFlipLen

Docs == ndJsonDeserialize(IOEnv.DOCS)      \* [id, doc]

Tails == IF Arch = "json"
         THEN { <<32, 123, 125>>, <<125>>, <<93>>, <<10, 97, 98, 99>>, <<32, 44>>, <<10>>, <<32, 32>>, <<49>>, <<0>> }
         ELSE { <<60, 120, 47, 62>>, <<120>>, <<60, 33, 45, 45, 32, 99, 32, 45, 45, 62>>, <<10>>, <<60, 47, 114, 111, 111, 116, 62>>, <<60>>, <<0>> }

VARIABLES d, kind, a, b
vars == <<d, kind, a, b>>

Init == d \in 1..Len(Docs) /\ kind = "intact" /\ a = 0 /\ b = <<>>
Doc == Docs[d].doc
Next == /\ kind = "intact"
        /\ \/ \E k \in 1..MaxCuts : k < Len(Doc) /\ kind' = "cut" /\ a' = k /\ b' = <<>>
           \/ \E t \in Tails : kind' = "tail" /\ a' = 0 /\ b' = t
           \/ Len(Doc) <= MaxFlipLen /\ \E i \in 1..Len(Doc), x \in FlipBytes : Doc[i] # x /\ kind' = "flip" /\ a' = i /\ b' = <<x>>
        /\ UNCHANGED d
Spec == Init /\ [][Next]_vars

Damaged == IF kind = "cut" THEN SubSeq(Doc, 1, Len(Doc) - a)
           ELSE IF kind = "tail" THEN Doc \o b
           ELSE IF kind = "flip" THEN [Doc EXCEPT ![a] = b[1]]
           ELSE Doc
\* well-formed UTF-8 (Unicode table 3-7): the guard of Dev_JsonMemoryAcceptsIllFormedUtf8
RECURSIVE ValidUtf8(_, _)
ValidUtf8(bs, i) ==
  IF i > Len(bs) THEN TRUE
  ELSE LET c == bs[i]
           Cont(j, lo, hi) == j <= Len(bs) /\ bs[j] >= lo /\ bs[j] <= hi IN
       IF c < 128 THEN ValidUtf8(bs, i + 1)
       ELSE IF c >= 194 /\ c <= 223 THEN Cont(i + 1, 128, 191) /\ ValidUtf8(bs, i + 2)
       ELSE IF c = 224 THEN Cont(i + 1, 160, 191) /\ Cont(i + 2, 128, 191) /\ ValidUtf8(bs, i + 3)
       ELSE IF (c >= 225 /\ c <= 236) \/ c \in {238, 239} THEN Cont(i + 1, 128, 191) /\ Cont(i + 2, 128, 191) /\ ValidUtf8(bs, i + 3)
       ELSE IF c = 237 THEN Cont(i + 1, 128, 159) /\ Cont(i + 2, 128, 191) /\ ValidUtf8(bs, i + 3)
       ELSE IF c = 240 THEN Cont(i + 1, 144, 191) /\ Cont(i + 2, 128, 191) /\ Cont(i + 3, 128, 191) /\ ValidUtf8(bs, i + 4)
       ELSE IF c >= 241 /\ c <= 243 THEN Cont(i + 1, 128, 191) /\ Cont(i + 2, 128, 191) /\ Cont(i + 3, 128, 191) /\ ValidUtf8(bs, i + 4)
       ELSE IF c = 244 THEN Cont(i + 1, 128, 143) /\ Cont(i + 2, 128, 191) /\ Cont(i + 3, 128, 191) /\ ValidUtf8(bs, i + 4)
       ELSE FALSE
Export == PrintT(<<"GEN", ToJson([src |-> d, kind |-> kind, doc |-> Damaged, utf8ok |-> ValidUtf8(Damaged, 1)])>>)
=============================================================================
