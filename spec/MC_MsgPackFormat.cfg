SPECIFICATION Spec
INVARIANTS RoundTrip CompactIsShortest PrefixFree
