---------------------------- MODULE Gen_Unicode12 ----------------------------
(* C12 input generation: TLC enumerates the ill-formed (and neighbouring well-formed) code-unit      *)
(* strings and writes them as ndjson.  Parameters come from the environment:                          *)
(*   KIND  u8x1 | u8x2 | u8r2 | u8c3 | u8o3 | u8c4 | u8long | u8pair | u16 | u32                               *)
(*   LO,HI first-unit (u8x2: byte value; class kinds: index into the representative list) shard range *)
(*   OUT   output file                                                                                *)
(* Every core string is emitted bare and embedded between valid neighbours (ASCII and multi-unit).    *)
EXTENDS Unicode, SequencesExt, Json, IOUtils

Kind == IOEnv.KIND
Lo   == atoi(IOEnv.LO)
Hi   == atoi(IOEnv.HI)

\* --- UTF-8 byte classes (Unicode Table 3-7 refined): boundary representatives of every class
Reps8Full == <<\h00, \h41, \h7F,                                   \* ASCII
               \h80, \h8F, \h90, \h9F, \hA0, \hBF,                  \* continuation sub-ranges
               \hC0, \hC1, \hC2, \hDF, \hE0, \hE1, \hEC, \hED, \hEE, \hEF,
               \hF0, \hF1, \hF3, \hF4, \hF5, \hF7, \hF8, \hFB, \hFC, \hFD, \hFE, \hFF>>
\* one representative per class
Reps8One  == <<\h41, \h80, \h90, \hBF, \hC0, \hC2, \hE0, \hE1, \hED, \hEF, \hF0, \hF1, \hF4, \hF5, \hF8, \hFC, \hFF>>

Reps16 == <<\h0041, \h007F, \h0080, \h07FF, \h0800, \hD7FF, \hD800, \hDBFF, \hDC00, \hDFFF, \hE000, \hFEFF, \hFFFE, \hFFFF, \h0000>>

\* UTF-32 units as halves <<hi, lo>>
Reps32 == << <<0, \h41>>, <<0, \h7F>>, <<0, \h80>>, <<0, \h7FF>>, <<0, \h800>>, <<0, \hD7FF>>, <<0, \hD800>>, <<0, \hDBFF>>,
             <<0, \hDC00>>, <<0, \hDFFF>>, <<0, \hE000>>, <<0, \hFFFF>>, <<1, 0>>, <<\h10, \hFFFF>>, <<\h11, 0>>, <<\h11, \hFFFF>>,
             <<\h1F, \hFFFF>>, <<\h20, 0>>, <<\h7FFF, \hFFFF>>, <<\h8000, 0>>, <<\hFFFF, \hFFFF>>, <<\h4100, 0>>, <<\hD800, \hDC00>> >>

\* --- (broken prefix, following well-formed character) pairs: a multi-byte sequence with a MISSING TAIL (every lead class incl. the
\* extreme leads, 0 .. n-2 continuation bytes that are legal for that lead), or a byte that can never start a sequence, immediately
\* followed by a well-formed sequence of every lead class incl. the extreme leads C2, DF, E0, ED, EF, F0, F4 and ASCII.
\* The maximal-subpart / resynchronisation behaviour of a decoder is decided exactly here.
BrokenPrefixes ==
  << <<\hC2>>, <<\hDF>>,
     <<\hE0>>, <<\hE0, \hA0>>, <<\hE1>>, <<\hE1, \h80>>, <<\hEC>>, <<\hEC, \hBF>>, <<\hED>>, <<\hED, \h9F>>,
     <<\hEE>>, <<\hEE, \h80>>, <<\hEF>>, <<\hEF, \hBF>>,
     <<\hF0>>, <<\hF0, \h90>>, <<\hF0, \h90, \h80>>, <<\hF1>>, <<\hF1, \h80>>, <<\hF1, \h80, \hBF>>,
     <<\hF3>>, <<\hF3, \hBF>>, <<\hF3, \hBF, \h80>>, <<\hF4>>, <<\hF4, \h8F>>, <<\hF4, \h8F, \hBF>>,
     <<\h80>>, <<\hBF>>, <<\hC0>>, <<\hC1>>, <<\hF5>>, <<\hF8>>, <<\hFF>>,
     <<\hE0, \h80>>, <<\hED, \hA0>>, <<\hF0, \h80>>, <<\hF4, \h90>> >>
Followers ==
  << <<\h00>>, <<\h41>>, <<\h7F>>, <<\hC2, \h80>>, <<\hDF, \hBF>>, <<\hE0, \hA0, \h80>>, <<\hE1, \h80, \h80>>, <<\hEC, \hBF, \hBF>>,
     <<\hED, \h80, \h80>>, <<\hED, \h9F, \hBF>>, <<\hEE, \h80, \h80>>, <<\hEF, \hBF, \hBF>>,
     <<\hF0, \h90, \h80, \h80>>, <<\hF1, \h80, \h80, \h80>>, <<\hF3, \hBF, \hBF, \hBF>>, <<\hF4, \h80, \h80, \h80>>, <<\hF4, \h8F, \hBF, \hBF>> >>

Idx(r) == {k \in DOMAIN r : k >= Lo /\ k <= Hi}
All(r) == DOMAIN r

\* contexts: <<prefix, suffix>> in units of the source form
Ctx8  == << <<>>, <<>> >>
Ctx8a == << <<\h61>>, <<\h62>> >>
Ctx8m == << <<\hC3, \hA9>>, <<\hE2, \h82, \hAC>> >>            \* e-acute ... euro sign
Ctx8s == << <<\hF0, \h9F, \h98, \h80>>, <<\h7A>> >>            \* U+1F600 ... z
Ctx16  == << <<>>, <<>> >>
Ctx16a == << <<\h61>>, <<\h62>> >>
Ctx16m == << <<\hD83D, \hDE00>>, <<\h20AC>> >>
H(x) == <<x \div 65536, x % 65536>>
Ctx32  == << <<>>, <<>> >>
Ctx32a == << <<H(\h61)>>, <<H(\h62)>> >>
Ctx32m == << <<H(\h1F600)>>, <<H(\h20AC)>> >>

Wrap(c, s) == c[1] \o s \o c[2]

Cores ==
  IF Kind = "u8x1" THEN {<<a>> : a \in 0..255}
  ELSE IF Kind = "u8x2" THEN {<<a, b>> : a \in Lo..Hi, b \in 0..255}
  ELSE IF Kind = "u8r2" THEN {<<Reps8Full[a], Reps8Full[b]>> : a \in Idx(Reps8Full), b \in All(Reps8Full)}
  ELSE IF Kind = "u8o3" THEN {<<Reps8One[a], Reps8One[b], Reps8One[c]>> : a \in Idx(Reps8One), b \in All(Reps8One), c \in All(Reps8One)}
  ELSE IF Kind = "u8c3" THEN {<<Reps8Full[a], Reps8Full[b], Reps8Full[c]>> : a \in Idx(Reps8Full), b \in All(Reps8Full), c \in All(Reps8Full)}
  ELSE IF Kind = "u8c4" THEN {<<Reps8One[a], Reps8One[b], Reps8One[c], Reps8One[d]>> :
                                 a \in Idx(Reps8One), b \in All(Reps8One), c \in All(Reps8One), d \in All(Reps8One)}
  ELSE IF Kind = "u8long" THEN
       \* 5- and 6-byte forms, complete / truncated / interrupted by ASCII, and runs of continuation bytes
       {<<\hF8, \h81, \h81, \h81, \h81>>, <<\hFC, \h81, \h81, \h81, \h81, \h81>>, <<\hF8, \h81, \h81>>, <<\hFC, \h81, \h81, \h81, \h81>>,
        <<\hF8, \h61, \h62, \h63, \h64>>, <<\hFC, \h81, \h61, \h62, \h63, \h64>>, <<\hF8, \h81, \h81, \h81, \h61>>,
        <<\h80, \h80, \h80, \h80, \h80>>, <<\hF0, \h9F, \h98, \hF0, \h9F, \h98, \h80>>, <<\hE2, \h82, \hE2, \h82, \hAC>>,
        <<\hF4, \h8F, \hBF, \hBF, \hF4, \h90, \h80, \h80>>, <<\hED, \h9F, \hBF, \hED, \hA0, \h80, \hEE, \h80, \h80>>,
        <<\hEF, \hBB, \hBF, \hC0, \hAF>>, <<\hE0, \h9F, \hBF, \hE0, \hA0, \h80>>, <<\hF0, \h8F, \hBF, \hBF, \hF0, \h90, \h80, \h80>>}
  ELSE IF Kind = "u8pair" THEN {BrokenPrefixes[a] \o Followers[b] : a \in DOMAIN BrokenPrefixes, b \in DOMAIN Followers}
  ELSE IF Kind = "u16" THEN
       {<<Reps16[a]>> : a \in Idx(Reps16)}
       \cup {<<Reps16[a], Reps16[b]>> : a \in Idx(Reps16), b \in All(Reps16)}
       \cup {<<Reps16[a], Reps16[b], Reps16[c]>> : a \in Idx(Reps16), b \in All(Reps16), c \in All(Reps16)}
       \cup {<<Reps16[a], Reps16[b], Reps16[c], Reps16[d]>> : a \in Idx(Reps16) \cap 6..11, b \in 6..11, c \in 6..11, d \in 6..11}
  ELSE \* u32
       {<<Reps32[a]>> : a \in Idx(Reps32)}
       \cup {<<Reps32[a], Reps32[b]>> : a \in Idx(Reps32), b \in All(Reps32)}
       \cup {<<Reps32[a], Reps32[b], Reps32[c]>> : a \in Idx(Reps32), b \in All(Reps32), c \in All(Reps32) \cap {1, 7, 9, 12, 13, 15, 20, 21}}

Contexts ==
  IF Kind \in {"u8x1", "u8x2", "u8r2", "u8long"} THEN {Ctx8, Ctx8a, Ctx8m, Ctx8s}
  ELSE IF Kind = "u8pair" THEN {Ctx8, Ctx8a}
  ELSE IF Kind \in {"u8c3", "u8o3"} THEN {Ctx8, Ctx8m}
  ELSE IF Kind = "u8c4" THEN {Ctx8, Ctx8a}
  ELSE IF Kind = "u16" THEN {Ctx16, Ctx16a, Ctx16m}
  ELSE {Ctx32, Ctx32a, Ctx32m}

Sf == IF Kind = "u16" THEN 16 ELSE IF Kind = "u32" THEN 32 ELSE 8

Rows == SetToSeq({[sf |-> Sf, u |-> Wrap(c, s)] : c \in Contexts, s \in Cores})

ASSUME ndJsonSerialize(IOEnv.OUT, Rows)
ASSUME PrintT(<<"ROWS", ToJson([n |-> Len(Rows)])>>)

VARIABLE dummy
Init == dummy = 0
Next == UNCHANGED dummy
=============================================================================
