----------------------------- MODULE ScopeUnwind -----------------------------
(***************************************************************************)
(* C20: life cycle of archive scopes when an operation fails midway.        *)
(*                                                                         *)
(* A  (the protocol, an acceptor over observable events)                    *)
(*    open(id)        a scope object (root archive or nested scope) starts  *)
(*    move(new, old)  a scope is move-constructed from `old` (returned in a *)
(*                    std::optional); `old` stays behind as a husk          *)
(*    close(id)       a scope object is destroyed (after its destructor     *)
(*                    body: skipping unread members, finishing a CSV row)   *)
(*    park            a destructor caught its own failure and stored it in  *)
(*                    the SerializationContext                              *)
(*    rethrow         OnFinishSerialization() throws the stored error       *)
(*    end(outcome)    the public call returned ("none") or threw            *)
(*                    ("exception") - logged by the caller                  *)
(*  The property: scopes are destroyed in LIFO order, each exactly once,    *)
(*  all of them before the call ends (everything stays destructible on     *)
(*  every failure path); an error a destructor could not throw is never     *)
(*  lost (the call ends with an exception); the stored error is rethrown    *)
(*  only once every nested scope is gone.                                   *)
(*                                                                         *)
(* M  (code-shaped session machine, module MC_ScopeUnwind) generates the    *)
(*    behaviours of a load / save session with failures at every step and   *)
(*    destructors that do fallible work; TLC checks M's event sequences are *)
(*    accepted by A and that the process is never terminated.               *)
(***************************************************************************)
EXTENDS Naturals, Sequences, FiniteSets, TLC

\* acceptor state
AInit == [stack |-> <<>>, husks |-> {}, parked |-> FALSE, rethrown |-> FALSE, bad |-> ""]

Top(s) == s.stack[Len(s.stack)]
Pop(q) == SubSeq(q, 1, Len(q) - 1)
Live(s) == { s.stack[i] : i \in 1..Len(s.stack) } \cup s.husks
Bad(s, why) == IF s.bad = "" THEN [s EXCEPT !.bad = why] ELSE s

AOpen(s, id) ==
  IF id \in Live(s) THEN Bad(s, "a scope object is constructed where a live one is")
  ELSE IF s.rethrown THEN Bad(s, "a scope is opened after the stored error was rethrown")
  ELSE [s EXCEPT !.stack = Append(@, id)]

AMove(s, new, old) ==
  IF s.stack = <<>> \/ Top(s) # old THEN Bad(s, "moved-from scope is not the innermost live scope")
  ELSE IF new \in Live(s) THEN Bad(s, "a scope object is constructed where a live one is")
  ELSE [s EXCEPT !.stack = Append(Pop(@), new), !.husks = @ \cup {old}]

AClose(s, id) ==
  IF id \in s.husks THEN [s EXCEPT !.husks = @ \ {id}]
  ELSE IF s.stack = <<>> \/ Top(s) # id THEN Bad(s, "a scope is destroyed out of LIFO order (or twice)")
  ELSE [s EXCEPT !.stack = Pop(@)]

APark(s) ==
  IF s.stack = <<>> THEN Bad(s, "an error is stored although no scope is being destroyed")
  ELSE [s EXCEPT !.parked = TRUE]

ARethrow(s) ==
  IF ~s.parked THEN Bad(s, "rethrow without a stored error")
  ELSE IF Len(s.stack) > 1 THEN Bad(s, "the stored error is rethrown while nested scopes are alive")
  ELSE [s EXCEPT !.rethrown = TRUE]

AEnd(s, outcome) ==
  IF s.stack # <<>> \/ s.husks # {} THEN Bad(s, "the call ended while scope objects are alive (never destroyed)")
  ELSE IF s.parked /\ outcome # "exception" THEN Bad(s, "an error stored by a destructor was lost: the call returned normally")
  ELSE IF s.rethrown /\ outcome # "exception" THEN Bad(s, "rethrown error did not reach the caller")
  ELSE s

\* one observable event e = <<name, a, b>> (unused positions 0)
AStep(s, e) ==
  IF s.bad # "" THEN s
  ELSE IF e[1] = "open" THEN AOpen(s, e[2])
  ELSE IF e[1] = "move" THEN AMove(s, e[2], e[3])
  ELSE IF e[1] = "close" THEN AClose(s, e[2])
  ELSE IF e[1] = "park" THEN APark(s)
  ELSE IF e[1] = "rethrow" THEN ARethrow(s)
  ELSE Bad(s, "unknown event")

RECURSIVE ARun(_, _, _)
ARun(s, evs, i) == IF i > Len(evs) THEN s ELSE ARun(AStep(s, evs[i]), evs, i + 1)

\* verdict for a whole recorded run: "" = accepted
Verdict(evs, outcome) ==
  IF outcome \notin {"none", "exception"} THEN ""          \* terminate / crash / hang are judged by Faults!OutcomeAllowed
  ELSE LET s == ARun(AInit, evs, 1) IN
       IF s.bad # "" THEN s.bad ELSE AEnd(s, outcome).bad
=============================================================================
