INIT Init
NEXT Next
