------------------------- MODULE Trace_ChronoParse -------------------------
(* C15: judges what the real parsers did with TLC-generated texts (harness/chrono_harness.cpp, mode "parse"). *)
(* Record: [id, k ("dt"|"du"), t (code points), r (outcome per target, char input), r16, r32, rw (outcome    *)
(* per wide target for char16_t / char32_t / wchar_t input)]  or  [id, crash].                              *)
(* A record is accepted iff every outcome is in the set Chrono.tla allows for (text, target) and the wide   *)
(* inputs give the outcome of the char input.  Rejected outcomes are classified by the named deviations    *)
(* below (each guard is narrow: a different wrong outcome for the same text is still a plain violation).    *)
(* Per record the text is parsed once and the tick candidates are computed once per unit; the 28 (unit,     *)
(* representation) targets then only need range comparisons.                                                *)
EXTENDS Chrono, Json, IOUtils

VARIABLE dummy

Traces == ndJsonDeserialize(IOEnv.TRACE)

\* target order of the harness: units (outer) x reps (inner); then time_t, tm for date-times
TUnitIdx(i) == ((i - 1) \div 4) + 1
TUnit(i) == Units[TUnitIdx(i)]
TRep(i)  == Reps[((i - 1) % 4) + 1]
TName(k, i) == IF k = "dt" /\ i = 29 THEN "time_t" ELSE IF k = "dt" /\ i = 30 THEN "tm"
               ELSE (IF k = "dt" THEN "tp:" ELSE "dur:") \o TUnit(i) \o ":" \o TRep(i)
WideDt == <<13, 1, 26, 29, 30>>      \* tp:s:i64, tp:ns:i64, tp:d:i32, time_t, tm
WideDu == <<9, 15, 24>>              \* dur:ms:i64, dur:s:u64, dur:h:i8

TicksPerDay(u) ==
  CASE u = "ns" -> <<86400, 1000, 1000, 1000>> [] u = "us" -> <<86400, 1000, 1000>> [] u = "ms" -> <<86400, 1000>>
    [] u = "s" -> <<86400>> [] u = "min" -> <<1440>> [] u = "h" -> <<24>> [] OTHER -> <<>>

\* candidates of all seven units, each as a sequence of <<tick count, "V:<decimal>">> (evaluated once per record)
AllCands(secs, fr, negFr) ==
  LET P(u) == SetToSeq({<<c, "V:" \o ToDec(c)>> : c \in UnitCands(secs, fr, negFr, u)}) IN
  <<P("ns"), P("us"), P("ms"), P("s"), P("min"), P("h"), P("d")>>
OutcomesP(pairs, r) == IF pairs = <<>> THEN {"O"} ELSE {IF Fits(pairs[j][1], r) THEN pairs[j][2] ELSE "O" : j \in 1..Len(pairs)}

-----------------------------------------------------------------------------
(* Named deviations of the unchanged tree                                    *)

\* Dev_AccumulationOrder (residue after fix b4c84ea).  The parser forms  s1 = time of day,  s2 = s1 + fraction,
\* s3 = s2 + whole days, where for dates before the epoch the time of day is counted backwards from the next midnight
\* (time - 86400 s, days + 1) as soon as a time of day or a fraction is present.  Every partial sum is range checked in
\* the target representation, so a representable instant is still rejected when s1 or s2 does not fit although s3 does:
\* unsigned representations (negative partial sums) and 8-bit sub-second / second targets (-128 ms = -1 s + 872 ms).
\* Guard: exactly that - the instant fits r, and s1 or s2 computed in this order does not.  A different order of the
\* three additions, or a rejection with fitting partial sums, is a plain violation.
AccOrderGuard(c, secs, hasFr, u, r) ==
  LET dm == DivModSmall(secs, 86400)
      back == Lt(dm.q, Zero) /\ (dm.r # 0 \/ hasFr)
      timeSecs == IF back THEN dm.r - 86400 ELSE dm.r
      s1 == IF SubSecond(u) THEN ShiftDec(FromInt(timeSecs), FracDigits(u)) ELSE DivModSmall(FromInt(timeSecs), UnitSeconds(u)).q
      s2 == Sub(c, MulChain(IF back THEN AddSmall(dm.q, 1) ELSE dm.q, TicksPerDay(u)))
  IN ~Fits(s1, r) \/ ~Fits(s2, r)
Dev_AccumulationOrder(pairs, secs, hasFr, u, r, obs) ==
  obs = "O" /\ \E j \in 1..Len(pairs) : Fits(pairs[j][1], r) /\ AccOrderGuard(pairs[j][1], secs, hasFr, u, r)

\* Dev_FractionCastWraps: the fraction is rounded with std::chrono::round<target duration>, i.e. cast to the target
\* representation before any range check; a fraction that alone exceeds the representation (int8 sub-second targets)
\* wraps and a value is returned.  Guard: sub-second unit, the rounded fraction does not fit r, a value was returned.
\* (std::chrono::round also forms floor+1, so a fraction within one tick of the limit wraps as well)
FractionTooWide(fr, neg, u, r) ==
  SubSecond(u) /\ \E f \in RoundFrac(fr, FracDigits(u)), d \in {-1, 0, 1} : ~Fits(FromInt((IF neg THEN 0 - f ELSE f) + d), r)
IsValueOutcome(obs) == obs # "I" /\ obs # "O" /\ obs # "-"
Dev_FractionCastWraps(fr, neg, u, r, obs) == FractionTooWide(fr, neg, u, r) /\ IsValueOutcome(obs)

\* Dev_DaysFromCivilEdge (residue after fix 0dda6ff): the day number is an int64, so day counts above 2^63 - which a
\* uint64 days representation could hold - are rejected.  Guard: unsigned representation, day number > INT64_MAX.
Dev_DaysFromCivilEdge(pairs, secs, r, obs) ==
  obs = "O" /\ ~RepSigned(r) /\ Gt(DivModSmall(secs, 86400).q, I64Max) /\ \E j \in 1..Len(pairs) : Fits(pairs[j][1], r)

\* Dev_Feb29CommonYear: the day-of-month table has 29 for every February, so YYYY-02-29 of a common year is taken
\* as March 1st (for tm: copied as written).
Feb29Case(p) == p.ok /\ SmallVal(p.mo) = 2 /\ SmallVal(p.dd) = 29 /\ ~IsLeapBig(DtYear(p))
                /\ SmallVal(p.hh) \in 0..23 /\ SmallVal(p.mi) \in 0..59 /\ SmallVal(p.ss) \in 0..59
AsMarch1(p) == [p EXCEPT !.mo = <<0, 3>>, !.dd = <<0, 1>>]
\* what the library computes for a field-valid decomposition q, including its own further deviations
LibraryOutcomeDt(q, u, r, obs) ==
  LET secs == DtSeconds(q)
      pairs == SetToSeq({<<c, "V:" \o ToDec(c)>> : c \in UnitCands(secs, q.fr, FALSE, u)})
  IN obs \in OutcomesP(pairs, r) \/ Dev_AccumulationOrder(pairs, secs, q.fr # <<>>, u, r, obs) \/ Dev_FractionCastWraps(q.fr, FALSE, u, r, obs)
     \/ Dev_DaysFromCivilEdge(pairs, secs, r, obs)
Dev_Feb29CommonYear(p, u, r, obs) == Feb29Case(p) /\ LibraryOutcomeDt(AsMarch1(p), u, r, obs)
Dev_Feb29CommonYearTm(p, obs) == Feb29Case(p) /\ obs = TmOutcome(p)

\* Dev_PlusMinusYear: a '+' is skipped and the rest is handed to the integer parser, so "+-YYYY-..." is read as year -YYYY
Dev_PlusMinusYear(t, i, obs) ==
  /\ At(t, 1, ChPlus) /\ At(t, 2, ChMinus)
  /\ LET t2 == SubSeq(t, 2, Len(t)) p2 == DtParse(t2)
         \* the library's reading of t2, including its February 29 deviation
         q == IF p2.ok /\ ~DtFieldsOK(p2) /\ Feb29Case(p2) THEN AsMarch1(p2) ELSE p2
     IN p2.ok /\ DtFieldsOK(q) /\
        (IF i = 30 THEN obs = TmOutcome(p2)
         ELSE LibraryOutcomeDt(q, IF i = 29 THEN "s" ELSE TUnit(i), IF i = 29 THEN "i64" ELSE TRep(i), obs))

\* Dev_ComponentwisePrecision: every component is converted to the target unit on its own, so PT30M1800S (= 1 h) is
\* rejected for an hours target because 30 min is not a whole number of hours.
\* Guard: some component alone is not a multiple of the target unit (and the total is representable: obs is not allowed).
CompsAllMultiples(comps, j, us) == \A i \in 1..j : DivModSmall(comps[i].secs, us).r = 0
Dev_ComponentwisePrecision(sc, u, obs, allowed) ==
  /\ obs = "O" /\ sc.ok /\ u \in {"min", "h", "d"}
  /\ \E a \in allowed : a # "I" /\ a # "O"
  /\ ~CompsAllMultiples(sc.comps, Len(sc.comps), UnitSeconds(u))

\* Dev_NegZeroUnsigned: a leading '-' is rejected for unsigned representations before the value is known, also when
\* the duration is zero (or rounds to zero)
Dev_NegZeroUnsigned(sc, r, obs, allowed) ==
  obs = "O" /\ sc.ok /\ sc.neg /\ ~RepSigned(r) /\ (allowed \ {"I"}) = {"V:0"}

\* Dev_RangeBeforeSyntax: durations are converted component by component while scanning, so a text with a syntax
\* error AFTER a prefix that already cannot be represented (or after a '-' for an unsigned target) is reported as
\* out_of_range instead of invalid_argument.  Guard: text outside the grammar, starts with [sign] 'P', and some
\* prefix of its well-formed components is not representable in the target.
PrefixUnrepresentable(sc, j, u, r) ==
  LET secs == CompsSecs(sc.comps, j)
      fs == CompsFracs(sc.comps, j)
      fr == IF fs = <<>> THEN <<>> ELSE fs[1].fr
  IN \/ "O" \in TickOutcomes(IF sc.neg THEN Neg(secs) ELSE secs, fr, sc.neg, u, r)
     \/ (u \in {"min", "h", "d"} /\ ~CompsAllMultiples(sc.comps, j, UnitSeconds(u)))
     \/ (Len(fs) > 0 /\ FractionTooWide(fr, sc.neg, u, r))
Dev_RangeBeforeSyntax(sc, u, r, obs) ==
  /\ obs = "O" /\ ~sc.ok /\ sc.hasP
  /\ \/ (sc.neg /\ ~RepSigned(r))
     \/ \E j \in 1..Len(sc.comps) : PrefixUnrepresentable(sc, j, u, r)
     \* the fraction of the failing component is added before its designator is examined
     \/ (sc.pend # <<>> /\ LET secs == CompsSecs(sc.comps, Len(sc.comps)) IN
           \/ "O" \in TickOutcomes(IF sc.neg THEN Neg(secs) ELSE secs, sc.pend, sc.neg, u, r)
           \/ FractionTooWide(sc.pend, sc.neg, u, r))

-----------------------------------------------------------------------------
Fail(i, k, why, dev, obs, allowed) == [tgt |-> TName(k, i), why |-> why, dev |-> dev, obs |-> obs, allowed |-> allowed]

WideFails(k, name, rs, r, idx) ==
  IF Len(rs) # Len(idx) THEN <<[tgt |-> name, why |-> "wide-shape", dev |-> "", obs |-> "", allowed |-> {}]>>
  ELSE FoldLeft(LAMBDA acc, j : IF rs[j] = r[idx[j]] THEN acc
                                ELSE Append(acc, [tgt |-> name \o ":" \o TName(k, idx[j]), why |-> "width", dev |-> "",
                                                  obs |-> rs[j], allowed |-> {r[idx[j]]}]),
                <<>>, [j \in 1..Len(idx) |-> j])

DtVerdicts(e) ==
  LET t == e.t
      p == DtParse(t)
      valid == p.ok /\ DtFieldsOK(p)
      secs == DtSeconds(p)                                     \* only used when valid
      cands == AllCands(secs, p.fr, FALSE)                     \* only used when valid
      invalidSet == IF HasHugeRun(t) THEN {"I", "O"} ELSE {"I"}
      Tgt(i) ==
        LET obs == e.r[i] IN
        IF i = 30 THEN
           LET allowed == TmAllowedP(t, p) IN
           IF obs \in allowed THEN <<>>
           ELSE <<Fail(i, "dt", "outcome", IF Dev_Feb29CommonYearTm(p, obs) THEN "Dev_Feb29CommonYear"
                                         ELSE IF Dev_PlusMinusYear(t, i, obs) THEN "Dev_PlusMinusYear" ELSE "", obs, allowed)>>
        ELSE LET u == IF i = 29 THEN "s" ELSE TUnit(i)
                 r == IF i = 29 THEN "i64" ELSE TRep(i)
                 pairs == IF valid THEN cands[IF i = 29 THEN 4 ELSE TUnitIdx(i)] ELSE <<>>
                 allowed == IF ~valid THEN invalidSet
                            ELSE IF p.strict THEN OutcomesP(pairs, r) ELSE OutcomesP(pairs, r) \cup {"I"}
             IN IF obs \in allowed THEN <<>>
                ELSE <<Fail(i, "dt", "outcome",
                            IF valid /\ Dev_AccumulationOrder(pairs, secs, p.fr # <<>>, u, r, obs) THEN "Dev_AccumulationOrder"
                            ELSE IF valid /\ Dev_FractionCastWraps(p.fr, FALSE, u, r, obs) THEN "Dev_FractionCastWraps"
                            ELSE IF valid /\ Dev_DaysFromCivilEdge(pairs, secs, r, obs) THEN "Dev_DaysFromCivilEdge"
                            ELSE IF Dev_Feb29CommonYear(p, u, r, obs) THEN "Dev_Feb29CommonYear"
                            ELSE IF Dev_PlusMinusYear(t, i, obs) THEN "Dev_PlusMinusYear" ELSE "", obs, allowed)>>
  IN IF Len(e.r) # 30 THEN <<[tgt |-> "", why |-> "shape", dev |-> "", obs |-> "", allowed |-> {}]>>
     ELSE FoldLeft(LAMBDA acc, i : acc \o Tgt(i), <<>>, [i \in 1..30 |-> i])
          \o WideFails("dt", "char16", e.r16, e.r, WideDt) \o WideFails("dt", "char32", e.r32, e.r, WideDt) \o WideFails("dt", "wchar", e.rw, e.r, WideDt)

DuVerdicts(e) ==
  LET t == e.t
      sc == DurScan(t)
      fs == CompsFracs(sc.comps, Len(sc.comps))
      fr == IF fs = <<>> THEN <<>> ELSE fs[1].fr
      secs == CompsSecs(sc.comps, Len(sc.comps))
      cands == AllCands(IF sc.neg THEN Neg(secs) ELSE secs, fr, sc.neg)      \* only used when sc.ok
      invalidSet == IF HasHugeRun(t) THEN {"I", "O"} ELSE {"I"}
      Tgt(i) ==
        LET obs == e.r[i] u == TUnit(i) r == TRep(i)
            allowed == IF ~sc.ok THEN invalidSet
                       ELSE IF Len(fs) > 1 THEN {"unsupported"}
                       ELSE IF sc.strict THEN OutcomesP(cands[TUnitIdx(i)], r) ELSE OutcomesP(cands[TUnitIdx(i)], r) \cup {"I"}
        IN IF obs \in allowed THEN <<>>
           ELSE IF "unsupported" \in allowed THEN <<Fail(i, "du", "spec-unsupported", "", obs, allowed)>>
           ELSE <<Fail(i, "du", "outcome",
                       IF sc.ok /\ Dev_FractionCastWraps(fr, sc.neg, u, r, obs) THEN "Dev_FractionCastWraps"
                       ELSE IF Dev_ComponentwisePrecision(sc, u, obs, allowed) THEN "Dev_ComponentwisePrecision"
                       ELSE IF Dev_NegZeroUnsigned(sc, r, obs, allowed) THEN "Dev_NegZeroUnsigned"
                       ELSE IF Dev_RangeBeforeSyntax(sc, u, r, obs) THEN "Dev_RangeBeforeSyntax" ELSE "", obs, allowed)>>
  IN IF Len(e.r) # 28 THEN <<[tgt |-> "", why |-> "shape", dev |-> "", obs |-> "", allowed |-> {}]>>
     ELSE FoldLeft(LAMBDA acc, i : acc \o Tgt(i), <<>>, [i \in 1..28 |-> i])
          \o WideFails("du", "char16", e.r16, e.r, WideDu) \o WideFails("du", "char32", e.r32, e.r, WideDu) \o WideFails("du", "wchar", e.rw, e.r, WideDu)

Verdicts(e) ==
  IF "crash" \in DOMAIN e THEN <<[tgt |-> "", why |-> "crash", dev |-> "", obs |-> ToString(e.crash), allowed |-> {}]>>
  ELSE IF e.k = "dt" THEN DtVerdicts(e) ELSE DuVerdicts(e)

ASSUME \A i \in 1..Len(Traces) :
          LET vs == Verdicts(Traces[i]) IN
          \A j \in 1..Len(vs) :
             PrintT(<<"BAD", ToJson([id |-> Traces[i].id, tgt |-> vs[j].tgt, why |-> vs[j].why, dev |-> vs[j].dev,
                                     obs |-> vs[j].obs, allowed |-> SetToSeq(vs[j].allowed)])>>)
ASSUME PrintT(<<"CHECKED", ToJson([n |-> Len(Traces)])>>)

Init == dummy = 0
Next == UNCHANGED dummy
=============================================================================
