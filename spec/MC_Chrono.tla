------------------------------ MODULE MC_Chrono ------------------------------
(* Exhaustive model-level check of the Chrono specification itself (C14, C15).                                *)
(* State: a day number d and a civil date civ that is advanced ONLY by the defining successor rule NextDay    *)
(* (month lengths + leap-year rule), starting from every January 1st of YLO..YHI.  TLC visits every day of    *)
(* the range; the invariants tie the closed-form calendar functions, their wide-integer versions, the         *)
(* printers and the parsers of Chrono.tla together:                                                           *)
(*   CalInv      CivilFromDays(d) = civ  and  DaysFromCivil(civ) = d   (so DaysFromCivil(CivilFromDays(d)) = d) *)
(*   EpochInv    d = 0  <=>  civ = 1970-01-01                                                                 *)
(*   BigInv      the BSBigInt calendar agrees with the native one                                             *)
(*   PrintParse  (every PP-th day, a day-dependent time of day, every unit) the printed text is in the strict *)
(*               grammar, parses back to exactly the same tick count, the string printer equals the code      *)
(*               printer, the duration text denotes the count, TsSplit/TsJoin are inverse, and the day-table   *)
(*               shortcut (count = d * ticks per day at midnight) agrees with SplitSeconds.                    *)
EXTENDS Chrono

CONSTANTS YLO, YHI, PP,
          NEG      \* TRUE: the year range is -YLO .. -YHI (TLC configuration files cannot hold negative numbers)

YearLo == IF NEG THEN 0 - YLO ELSE YLO
YearHi == IF NEG THEN 0 - YHI ELSE YHI

VARIABLES d, civ
vars == <<d, civ>>

Init == \E y \in YearLo..YearHi : civ = [y |-> y, m |-> 1, d |-> 1] /\ d = DaysFromCivil(y, 1, 1)
Step == civ.y <= YearHi /\ d' = d + 1 /\ civ' = NextDay(civ)
Next == Step
Spec == Init /\ [][Next]_vars

CalInv   == CivilFromDays(d) = civ /\ DaysFromCivil(civ.y, civ.m, civ.d) = d
EpochInv == (d = 0) <=> (civ = [y |-> 1970, m |-> 1, d |-> 1])
BigInv   == /\ CivilFromDaysBig(FromInt(d)) = [y |-> FromInt(civ.y), m |-> civ.m, d |-> civ.d]
            /\ DaysFromCivilBig(FromInt(civ.y), civ.m, civ.d) = FromInt(d)
            /\ IsLeapBig(FromInt(civ.y)) = IsLeap(civ.y)

PerDay(u) == CASE u = "d" -> <<>> [] u = "h" -> <<24>> [] u = "min" -> <<1440>> [] u = "s" -> <<86400>>
               [] u = "ms" -> <<86400, 1000>> [] u = "us" -> <<86400, 1000, 1000>> [] OTHER -> <<86400, 1000, 1000, 1000>>
\* a time of day (in ticks of u) that depends on the day: exercises every field
TodTicks(u) ==
  LET sod == ((d % 86400) * 7919) % 86400
      fr  == ((d % 1000) * 729) % 1000 IN
  CASE u = "d" -> Zero [] u = "h" -> FromInt(sod \div 3600) [] u = "min" -> FromInt(sod \div 60) [] u = "s" -> FromInt(sod)
    [] u = "ms" -> AddSmall(MulSmall(FromInt(sod), 1000), fr)
    [] u = "us" -> AddSmall(MulChain(FromInt(sod), <<1000, 1000>>), fr * 1000 + 7)
    [] OTHER -> AddSmall(MulChain(FromInt(sod), <<1000, 1000, 1000>>), fr * 1000000 + 7013)

PrintParseU(u) ==
  LET mid == MulChain(FromInt(d), PerDay(u))
      c   == Add(mid, TodTicks(u))
      txt == IsoPrintCodes(c, u)
      p   == DtParse(txt)
      dur == DurPrintCodes(c, u)
      ts  == TsSplit(c, u)
  IN /\ p.ok /\ p.strict /\ DtFieldsOK(p)
     /\ DtAllowedP(txt, p, u, "i64") = {Outcome(c, "i64")}       \* "O" where the unit cannot reach the year
     /\ CodesToStr(txt) = IsoPrint(c, u)
     /\ DurTextDenotes(dur, c, u) /\ DurAllowed(dur, u, "i64") = {Outcome(c, "i64")}
     /\ TsWellFormed(ts) /\ TsJoinNanos(ts.sec, ts.ns) = MulChain(c, NsChain(u))
     /\ SplitSeconds(mid, u) = [q |-> MulSmall(FromInt(d), 86400), r |-> Zero]
     /\ IsoPrint(mid, u) = DateTimeStr([y |-> FromInt(civ.y), m |-> civ.m, d |-> civ.d], 0, Zero, FracDigits(u))
PrintParse == (d % PP = 0) => \A u \in {"ns", "us", "ms", "s", "min", "h", "d"} : PrintParseU(u)
=============================================================================
