SPECIFICATION Spec
CONSTANTS
  Deltas = {1, 9999, 10000, 10001, 99999999, 100000000, 123456789}
  Factors = {1, 2, 7, 10, 9999, 10000, 10001, 86400, 146097, 200000}
  Limit = 1000000000
  MaxSteps = 2
  BigFactors = {2, 9999, 10000, 86400, 146097, 200000}
  MaxDigits = 40
INVARIANTS Twin TwinCmp TwinAddSub TwinMul TwinDec TwinDiv TwinShift BigWF BigAddSub BigMulDiv BigDec BigCmp BigChain BigDistrib BigShift
