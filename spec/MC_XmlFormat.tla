---------------------------- MODULE MC_XmlFormat ----------------------------
(* Self-consistency of the XML Layer-1 spec: every rendering (indentation, entity vs numeric references, quotes,   *)
(* empty-element form, declaration, encoding, BOM) of every corpus document parses back to the same element tree; *)
(* ill-formed texts are rejected.                                                                                 *)
EXTENDS XmlFormat, XmlCorpus
VARIABLES v, style, enc, bom
vars == <<v, style, enc, bom>>
XStyles == [indent : {0, 2, -1}, ref : {0, 1}, quote : {34, 39}, empty : {0, 1}, decl : {0, 1, 2}, cdata : {0, 1}]
Encs == {"utf8", "utf16le", "utf16be", "utf32le", "utf32be"}
Init == v \in XDocs /\ style = [indent |-> 0, ref |-> 0, quote |-> 34, empty |-> 0, decl |-> 1, cdata |-> 0] /\ enc = "utf8" /\ bom = FALSE
Next == /\ \E s \in XStyles, e \in Encs, b \in BOOLEAN : style' = s /\ enc' = e /\ bom' = b
        /\ UNCHANGED v
Spec == Init /\ [][Next]_vars
RoundTrip ==
  LET tree == XmlDoc(v)
      text == XRender(tree, style, enc)
      d == DecodeText(EncodeText(text, enc, bom), enc, bom)
      r == ParseXml(d[2])
  IN d[1] /\ r.ok /\ SameTree(r.el, tree)
BadXml == { <<60, 97, 62>>, <<60, 97, 62, 60, 47, 98, 62>>, <<60, 97, 62, 38, 60, 47, 97, 62>>, <<60, 97, 62, 1, 60, 47, 97, 62>>,
            <<60, 97, 62, 38, 35, 49, 59, 60, 47, 97, 62>>, <<60, 97, 32, 120, 61, 49, 47, 62>>, <<60, 97, 47, 62, 60, 98, 47, 62>>,
            <<60, 49, 97, 47, 62>>, <<60, 97, 32, 120, 61, 34, 49, 34, 32, 120, 61, 34, 50, 34, 47, 62>>, <<>> }
ASSUME \A t \in BadXml : ~ParseXml(t).ok
=============================================================================
