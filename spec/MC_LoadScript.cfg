SPECIFICATION Spec
CONSTANTS
  Mode = "fields"
  MaxOps = 2
  Widths = {0, 1}
INVARIANTS SentinelIntact UnchangedOnFailure Export
