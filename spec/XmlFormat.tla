------------------------------ MODULE XmlFormat ------------------------------
(***************************************************************************)
(* Layer 1: the XML 1.0 subset that the XML archive emits and must accept:   *)
(* XML declaration, elements, attributes, character data, the five           *)
(* predefined entities, decimal / hexadecimal character references,          *)
(* end-of-line normalisation, CDATA sections and comments in element       *)
(* content.  (DTDs, namespaces, processing instructions and other          *)
(* processing instructions are outside the model and outside what the        *)
(* archive emits.)                                                           *)
(*   Parse(text) -> [ok, el]   el = <<name, attrs, kids, text>>              *)
(*        attrs = sequence of <<name, value>>, kids = sequence of elements,  *)
(*        text = all character data of the element, references resolved      *)
(*   Render(el, style) -> text for style records (indentation, entity vs     *)
(*        character reference, quotes, empty-element form, declaration)      *)
(***************************************************************************)
EXTENDS JsonFormat

XFail(p) == [ok |-> FALSE, el |-> <<>>, p |-> p]

IsXmlChar(c) == c = 9 \/ c = 10 \/ c = 13 \/ (c >= 32 /\ c <= 55295) \/ (c >= 57344 /\ c <= 65533) \/ (c >= 65536 /\ c <= 1114111)
IsXWs(c) == c \in {32, 9, 10, 13}
IsNameStart(c) == (c >= 65 /\ c <= 90) \/ (c >= 97 /\ c <= 122) \/ c = 95 \/ c = 58 \/ (c >= 192 /\ c # 215 /\ c # 247 /\ c <= 55295)
IsNameChar(c) == IsNameStart(c) \/ (c >= 48 /\ c <= 57) \/ c = 45 \/ c = 46 \/ c = 183

RECURSIVE XSkipWs(_, _)
XSkipWs(t, p) == IF p <= Len(t) /\ IsXWs(t[p]) THEN XSkipWs(t, p + 1) ELSE p

RECURSIVE NameEnd(_, _)
NameEnd(t, p) == IF p <= Len(t) /\ IsNameChar(t[p]) THEN NameEnd(t, p + 1) ELSE p
\* returns position after the name, or 0 when no name starts at p
XName(t, p) == IF p <= Len(t) /\ IsNameStart(t[p]) THEN NameEnd(t, p + 1) ELSE 0

\* reference starting at '&' (position p): returns <<code point, position after ';'>> or <<-1, p>>
RECURSIVE DecDigits(_, _, _), HexDigits(_, _, _)
DecDigits(t, p, acc) == IF p <= Len(t) /\ IsDigit(t[p]) /\ acc < 2000000 THEN DecDigits(t, p + 1, acc * 10 + (t[p] - 48)) ELSE <<acc, p>>
HexDigits(t, p, acc) == IF p <= Len(t) /\ HexVal(t[p]) >= 0 /\ acc < 2000000 THEN HexDigits(t, p + 1, acc * 16 + HexVal(t[p])) ELSE <<acc, p>>
XRef(t, p) ==
  IF Lit(t, p, <<38, 108, 116, 59>>) THEN <<60, p + 4>>
  ELSE IF Lit(t, p, <<38, 103, 116, 59>>) THEN <<62, p + 4>>
  ELSE IF Lit(t, p, <<38, 97, 109, 112, 59>>) THEN <<38, p + 5>>
  ELSE IF Lit(t, p, <<38, 113, 117, 111, 116, 59>>) THEN <<34, p + 6>>
  ELSE IF Lit(t, p, <<38, 97, 112, 111, 115, 59>>) THEN <<39, p + 6>>
  ELSE IF Lit(t, p, <<38, 35, 120>>) THEN
       LET r == HexDigits(t, p + 3, 0) IN
       IF r[2] > p + 3 /\ r[2] <= Len(t) /\ t[r[2]] = 59 /\ IsXmlChar(r[1]) THEN <<r[1], r[2] + 1>> ELSE <<-1, p>>
  ELSE IF Lit(t, p, <<38, 35>>) THEN
       LET r == DecDigits(t, p + 2, 0) IN
       IF r[2] > p + 2 /\ r[2] <= Len(t) /\ t[r[2]] = 59 /\ IsXmlChar(r[1]) THEN <<r[1], r[2] + 1>> ELSE <<-1, p>>
  ELSE <<-1, p>>

\* attribute value / character data up to the terminator; literal CR / CRLF are normalised to LF (XML 1.0 section 2.11)
\* in attribute values literal TAB / LF / CR (after end-of-line normalisation) become a space (XML 1.0 section 3.3.3)
RECURSIVE XCharsA(_, _, _, _, _)
XCharsA(t, p, stop, acc, attr) ==     \* stop = set of code points that end the run; returns [ok, s, p]
  IF p > Len(t) THEN [ok |-> TRUE, s |-> acc, p |-> p]
  ELSE LET c == t[p] IN
    IF c \in stop THEN [ok |-> TRUE, s |-> acc, p |-> p]
    ELSE IF c = 38 THEN LET r == XRef(t, p) IN IF r[1] < 0 THEN [ok |-> FALSE, s |-> acc, p |-> p] ELSE XCharsA(t, r[2], stop, Append(acc, r[1]), attr)
    ELSE IF ~IsXmlChar(c) THEN [ok |-> FALSE, s |-> acc, p |-> p]
    ELSE IF c = 13 THEN XCharsA(t, IF p + 1 <= Len(t) /\ t[p + 1] = 10 THEN p + 2 ELSE p + 1, stop, Append(acc, IF attr THEN 32 ELSE 10), attr)
    ELSE IF attr /\ c \in {9, 10} THEN XCharsA(t, p + 1, stop, Append(acc, 32), attr)
    ELSE XCharsA(t, p + 1, stop, Append(acc, c), attr)
XChars(t, p, stop, acc) == XCharsA(t, p, stop, acc, FALSE)

RECURSIVE XAttrs(_, _, _)
XAttrs(t, p, acc) ==      \* after the element name; returns [ok, attrs, p] with p at '/' or '>'
  LET q == XSkipWs(t, p) IN
  IF q > Len(t) THEN [ok |-> FALSE, attrs |-> acc, p |-> q]
  ELSE IF t[q] = 62 \/ t[q] = 47 THEN [ok |-> TRUE, attrs |-> acc, p |-> q]
  ELSE IF q = p THEN [ok |-> FALSE, attrs |-> acc, p |-> q]            \* white space is required before an attribute
  ELSE LET ne == XName(t, q) IN
    IF ne = 0 THEN [ok |-> FALSE, attrs |-> acc, p |-> q]
    ELSE LET e1 == XSkipWs(t, ne) IN
      IF e1 > Len(t) \/ t[e1] # 61 THEN [ok |-> FALSE, attrs |-> acc, p |-> e1]
      ELSE LET v0 == XSkipWs(t, e1 + 1) IN
        IF v0 > Len(t) \/ t[v0] \notin {34, 39} THEN [ok |-> FALSE, attrs |-> acc, p |-> v0]
        ELSE LET r == XCharsA(t, v0 + 1, {t[v0], 60}, <<>>, TRUE) IN
          IF ~r.ok \/ r.p > Len(t) \/ t[r.p] # t[v0] THEN [ok |-> FALSE, attrs |-> acc, p |-> r.p]
          ELSE XAttrs(t, r.p + 1, Append(acc, <<SubSeq(t, q, ne - 1), r.s>>))

\* character data of a CDATA section starting at p (behind "<![CDATA["): up to "]]>", nothing is an escape inside
RECURSIVE XCData(_, _, _)
XCData(t, p, acc) ==
  IF p > Len(t) THEN [ok |-> FALSE, s |-> acc, p |-> p]
  ELSE IF Lit(t, p, <<93, 93, 62>>) THEN [ok |-> TRUE, s |-> acc, p |-> p + 3]
  ELSE IF ~IsXmlChar(t[p]) THEN [ok |-> FALSE, s |-> acc, p |-> p]
  ELSE IF t[p] = 13 THEN XCData(t, IF p + 1 <= Len(t) /\ t[p + 1] = 10 THEN p + 2 ELSE p + 1, Append(acc, 10))
  ELSE XCData(t, p + 1, Append(acc, t[p]))
\* position behind the "-->" that closes a comment whose text starts at p ("--" must not occur inside); 0 = ill-formed
RECURSIVE XCommentEnd(_, _)
XCommentEnd(t, p) ==
  IF p + 2 > Len(t) THEN 0
  ELSE IF t[p] = 45 /\ t[p + 1] = 45 THEN (IF t[p + 2] = 62 THEN p + 3 ELSE 0)
  ELSE IF ~IsXmlChar(t[p]) THEN 0
  ELSE XCommentEnd(t, p + 1)

RECURSIVE XElement(_, _), XContent(_, _, _, _, _)
\* content of element `name` starting at p: accumulates kids and text until the matching end tag
XContent(t, p, name, kids, text) ==
  IF p > Len(t) THEN XFail(p)
  ELSE IF Lit(t, p, <<60, 33, 91, 67, 68, 65, 84, 65, 91>>) THEN      \* <![CDATA[ ... ]]> : literal character data (end-of-line normalised)
       LET r == XCData(t, p + 9, <<>>) IN
       IF ~r.ok THEN XFail(r.p) ELSE XContent(t, r.p, name, kids, text \o r.s)
  ELSE IF Lit(t, p, <<60, 33, 45, 45>>) THEN                          \* <!-- comment --> : ignored
       LET e == XCommentEnd(t, p + 4) IN IF e = 0 THEN XFail(p) ELSE XContent(t, e, name, kids, text)
  ELSE IF t[p] = 60 THEN
       IF p + 1 <= Len(t) /\ t[p + 1] = 47 THEN          \* end tag
            LET ne == XName(t, p + 2) IN
            IF ne = 0 \/ SubSeq(t, p + 2, ne - 1) # name THEN XFail(p)
            ELSE LET q == XSkipWs(t, ne) IN
                 IF q <= Len(t) /\ t[q] = 62 THEN [ok |-> TRUE, el |-> <<kids, text>>, p |-> q + 1] ELSE XFail(q)
       ELSE LET r == XElement(t, p) IN IF ~r.ok THEN r ELSE XContent(t, r.p, name, Append(kids, r.el), text)
  ELSE LET r == XChars(t, p, {60}, <<>>) IN
       IF ~r.ok THEN XFail(r.p) ELSE XContent(t, r.p, name, kids, text \o r.s)

XElement(t, p) ==
  IF p > Len(t) \/ t[p] # 60 THEN XFail(p)
  ELSE LET ne == XName(t, p + 1) IN
    IF ne = 0 THEN XFail(p)
    ELSE LET name == SubSeq(t, p + 1, ne - 1)
             a == XAttrs(t, ne, <<>>) IN
      IF ~a.ok THEN XFail(a.p)
      ELSE IF \E i, j \in 1..Len(a.attrs) : i < j /\ a.attrs[i][1] = a.attrs[j][1] THEN XFail(a.p)     \* attribute names are unique
      ELSE IF t[a.p] = 47 THEN
           (IF a.p + 1 <= Len(t) /\ t[a.p + 1] = 62 THEN [ok |-> TRUE, el |-> <<name, a.attrs, <<>>, <<>>>>, p |-> a.p + 2] ELSE XFail(a.p))
      ELSE LET c == XContent(t, a.p + 1, name, <<>>, <<>>) IN
           IF ~c.ok THEN c ELSE [ok |-> TRUE, el |-> <<name, a.attrs, c.el[1], c.el[2]>>, p |-> c.p]

\* XML declaration (optional): <?xml version="1.0" [encoding="..."] [standalone="yes|no"] ?>
XDeclEnd(t) ==     \* position of "?>" of the declaration, 0 if none/ill-formed
  LET RECURSIVE Find(_)
      Find(i) == IF i + 1 > Len(t) THEN 0 ELSE IF t[i] = 63 /\ t[i + 1] = 62 THEN i ELSE IF t[i] = 60 /\ i > 1 THEN 0 ELSE Find(i + 1)
  IN Find(2)

ParseXml(t) ==
  LET hasDecl == Lit(t, 1, <<60, 63, 120, 109, 108>>)
      de == IF hasDecl THEN XDeclEnd(t) ELSE 0
      declOk == ~hasDecl \/ (de > 0 /\ LET a == XAttrs(SubSeq(t, 1, de - 1) \o <<62>>, 6, <<>>) IN
                                       a.ok /\ Len(a.attrs) >= 1 /\ a.attrs[1] = <<<<118, 101, 114, 115, 105, 111, 110>>, <<49, 46, 48>>>>)
      start == XSkipWs(t, IF hasDecl THEN de + 2 ELSE 1)
      r == XElement(t, start)
  IN IF ~declOk THEN XFail(1)
     ELSE IF r.ok /\ XSkipWs(t, r.p) = Len(t) + 1 THEN r ELSE XFail(r.p)

-----------------------------------------------------------------------------
(* Renderer.  style = [indent (0 = none, n = n spaces per level, -1 = tab), ref (0 entities, 1 numeric character references),
                       quote (34 | 39), empty (0 "<a/>", 1 "<a></a>"), decl (0 none, 1 version only, 2 with encoding name)] *)
XEsc(c, style, inAttr) ==
  IF c = 60 THEN (IF style.ref = 1 THEN <<38, 35, 54, 48, 59>> ELSE <<38, 108, 116, 59>>)
  ELSE IF c = 38 THEN (IF style.ref = 1 THEN <<38, 35, 120, 50, 54, 59>> ELSE <<38, 97, 109, 112, 59>>)
  ELSE IF c = 62 THEN <<38, 103, 116, 59>>
  ELSE IF c = 13 THEN <<38, 35, 49, 51, 59>>                  \* a literal CR would be normalised away
  ELSE IF inAttr /\ c = style.quote THEN (IF c = 34 THEN <<38, 113, 117, 111, 116, 59>> ELSE <<38, 97, 112, 111, 115, 59>>)
  ELSE IF inAttr /\ c \in {9, 10} THEN <<38, 35>> \o (IF c = 9 THEN <<57>> ELSE <<49, 48>>) \o <<59>>
  \* a line break in character data may be written as LF, CR LF or CR: every parser normalises them to LF (XML 1.0 section 2.11)
  ELSE IF c = 10 /\ ~inAttr /\ "eol" \in DOMAIN style /\ style.eol = 1 THEN <<13, 10>>
  ELSE IF c = 10 /\ ~inAttr /\ "eol" \in DOMAIN style /\ style.eol = 2 THEN <<13>>
  ELSE <<c>>
RECURSIVE XEscAll(_, _, _, _)
XEscAll(s, style, inAttr, i) == IF i > Len(s) THEN <<>> ELSE XEsc(s[i], style, inAttr) \o XEscAll(s, style, inAttr, i + 1)

\* character data of an element: escaped, or (style.cdata = 1) as a CDATA section preceded by a comment, when the text allows it
\* (no "]]>", and no CR, which would be normalised inside the section)
HasSeq3(s, a, b, c) == \E i \in 1..(Len(s) - 2) : s[i] = a /\ s[i + 1] = b /\ s[i + 2] = c
XTextOf(s, style) ==
  IF "cdata" \in DOMAIN style /\ style.cdata = 1 /\ ~HasSeq3(s, 93, 93, 62) /\ ~(\E i \in 1..Len(s) : s[i] = 13)
  THEN <<60, 33, 45, 45, 32, 99, 32, 45, 45, 62>> \o <<60, 33, 91, 67, 68, 65, 84, 65, 91>> \o s \o <<93, 93, 62>>
  ELSE XEscAll(s, style, FALSE, 1)

XEol(style) == IF "eol" \in DOMAIN style /\ style.eol = 1 THEN <<13, 10>> ELSE IF "eol" \in DOMAIN style /\ style.eol = 2 THEN <<13>> ELSE <<10>>
XIndent(style, depth) ==
  IF style.indent = 0 THEN <<>> ELSE XEol(style) \o (IF style.indent < 0 THEN [i \in 1..depth |-> 9] ELSE [i \in 1..(depth * style.indent) |-> 32])

RECURSIVE XRenderEl(_, _, _), XRenderKids(_, _, _, _), XRenderAttrs(_, _, _)
XRenderAttrs(attrs, style, i) ==
  IF i > Len(attrs) THEN <<>>
  ELSE <<32>> \o attrs[i][1] \o <<61, style.quote>> \o XEscAll(attrs[i][2], style, TRUE, 1) \o <<style.quote>> \o XRenderAttrs(attrs, style, i + 1)
XRenderKids(kids, style, depth, i) ==
  IF i > Len(kids) THEN <<>> ELSE XIndent(style, depth) \o XRenderEl(kids[i], style, depth) \o XRenderKids(kids, style, depth, i + 1)
XRenderEl(el, style, depth) ==
  LET open == <<60>> \o el[1] \o XRenderAttrs(el[2], style, 1) IN
  IF el[3] = <<>> /\ el[4] = <<>> THEN (IF style.empty = 0 THEN open \o <<47, 62>> ELSE open \o <<62, 60, 47>> \o el[1] \o <<62>>)
  ELSE IF el[3] = <<>> THEN open \o <<62>> \o XTextOf(el[4], style) \o <<60, 47>> \o el[1] \o <<62>>
  ELSE open \o <<62>> \o XRenderKids(el[3], style, depth + 1, 1) \o XIndent(style, depth) \o <<60, 47>> \o el[1] \o <<62>>

EncNameOf(enc) == IF enc = "utf8" THEN <<85, 84, 70, 45, 56>> ELSE IF enc \in {"utf16le", "utf16be"} THEN <<85, 84, 70, 45, 49, 54>> ELSE <<85, 84, 70, 45, 51, 50>>
XRender(el, style, enc) ==
  (IF style.decl = 0 THEN <<>>
   ELSE <<60, 63, 120, 109, 108, 32, 118, 101, 114, 115, 105, 111, 110, 61, style.quote, 49, 46, 48, style.quote>>
        \o (IF style.decl = 2 THEN <<32, 101, 110, 99, 111, 100, 105, 110, 103, 61, style.quote>> \o EncNameOf(enc) \o <<style.quote>> ELSE <<>>)
        \o <<63, 62>> \o (IF style.indent = 0 THEN <<>> ELSE <<10>>))
  \o XRenderEl(el, style, 0) \o (IF style.indent = 0 THEN <<>> ELSE <<10>>)

-----------------------------------------------------------------------------
(* The XML archive's data model: abstract value -> element tree               *)
XmlFloatTable == <<
  [f64 |-> <<63, 248, 0, 0, 0, 0, 0, 0>>, f32 |-> <<63, 192, 0, 0>>, text |-> <<49, 46, 53>>],                 \* 1.5
  [f64 |-> <<192, 2, 0, 0, 0, 0, 0, 0>>, f32 |-> <<192, 16, 0, 0>>, text |-> <<45, 50, 46, 50, 53>>],           \* -2.25
  [f64 |-> <<0, 0, 0, 0, 0, 0, 0, 0>>, f32 |-> <<0, 0, 0, 0>>, text |-> <<48>>],                                \* 0
  [f64 |-> <<64, 144, 0, 0, 0, 0, 0, 0>>, f32 |-> <<68, 128, 0, 0>>, text |-> <<49, 48, 50, 52>>],              \* 1024
  [f64 |-> <<63, 208, 0, 0, 0, 0, 0, 0>>, f32 |-> <<62, 128, 0, 0>>, text |-> <<48, 46, 50, 53>>],              \* 0.25
  \* 0.1 + 0.2 as a double: needs all 17 significant digits; read into a float it is the float nearest to it (0.3f)
  [f64 |-> <<63, 211, 51, 51, 51, 51, 51, 52>>, f32 |-> <<62, 153, 153, 154>>,
   text |-> <<48, 46, 51, 48, 48, 48, 48, 48, 48, 48, 48, 48, 48, 48, 48, 48, 48, 48, 52>>]
>>
\* entries whose text is the print form of the float (and not only of the double) value
XmlFloat32Rows == 1..5
\* text form of a scalar (<<>> for null)
XmlText(v) ==
  IF v[1] = "nil" THEN <<>>
  ELSE IF v[1] = "bool" THEN (IF v[2] THEN <<116, 114, 117, 101>> ELSE <<102, 97, 108, 115, 101>>)
  ELSE IF v[1] = "int" THEN RInt(v[2], v[3])
  ELSE IF v[1] \in {"f64", "f32"} THEN
       (LET i == CHOOSE k \in (IF v[1] = "f64" THEN 1..Len(XmlFloatTable) ELSE XmlFloat32Rows) : (IF v[1] = "f64" THEN XmlFloatTable[k].f64 ELSE XmlFloatTable[k].f32) = v[2] IN XmlFloatTable[i].text)
  ELSE StrBytesToCps(v[2])[2]

N(s) == s
RECURSIVE XmlEl(_, _), XmlArrKids(_, _), XmlMapKids(_, _), XmlMapAttrs(_, _)
\* members whose key is <<"attr", name>> are attributes of the object's element
XmlMapAttrs(pairs, i) ==
  IF i > Len(pairs) THEN <<>>
  ELSE (IF pairs[i][1][1] = "attr" THEN <<<<StrBytesToCps(pairs[i][1][2])[2], XmlText(pairs[i][2])>>>> ELSE <<>>) \o XmlMapAttrs(pairs, i + 1)
\* element `name` carrying value v
XmlEl(name, v) ==
  IF v[1] = "arr" THEN <<name, <<>>, XmlArrKids(v[2], 1), <<>>>>
  ELSE IF v[1] = "map" THEN <<name, XmlMapAttrs(v[2], 1), XmlMapKids(v[2], 1), <<>>>>
  ELSE <<name, <<>>, <<>>, XmlText(v)>>
XmlArrKids(items, i) ==
  IF i > Len(items) THEN <<>>
  ELSE <<XmlEl(IF items[i][1] = "arr" THEN <<97, 114, 114, 97, 121>> ELSE IF items[i][1] = "map" THEN <<111, 98, 106, 101, 99, 116>> ELSE <<118, 97, 108, 117, 101>>, items[i])>>
       \o XmlArrKids(items, i + 1)
XmlMapKids(pairs, i) ==
  IF i > Len(pairs) THEN <<>>
  ELSE IF pairs[i][1][1] = "attr" THEN XmlMapKids(pairs, i + 1)          \* attributes are not child elements
  ELSE <<XmlEl(IF pairs[i][1][1] = "str" THEN StrBytesToCps(pairs[i][1][2])[2] ELSE KeyText(pairs[i][1]), pairs[i][2])>> \o XmlMapKids(pairs, i + 1)
\* the whole document: root object -> <root>, root array -> <array>
XmlDoc(v) == XmlEl(IF v[1] = "arr" THEN <<97, 114, 114, 97, 121>> ELSE <<114, 111, 111, 116>>, v)

\* equality of element trees up to insignificant white space in element content
RECURSIVE AllWs(_, _)
AllWs(s, i) == i > Len(s) \/ (IsXWs(s[i]) /\ AllWs(s, i + 1))
RECURSIVE SameTree(_, _)
SameTree(a, b) ==
  /\ a[1] = b[1] /\ a[2] = b[2] /\ Len(a[3]) = Len(b[3])
  /\ (IF Len(b[3]) > 0 THEN AllWs(a[4], 1) ELSE a[4] = b[4])
  /\ \A i \in 1..Len(b[3]) : SameTree(a[3][i], b[3][i])

\* the text with literal CR / CRLF replaced by LF (what a parser sees when CR was written unescaped)
RECURSIVE NormEol(_, _)
NormEol(s, i) == IF i > Len(s) THEN <<>> ELSE IF s[i] = 13 THEN <<10>> \o NormEol(s, IF i + 1 <= Len(s) /\ s[i + 1] = 10 THEN i + 2 ELSE i + 1) ELSE <<s[i]>> \o NormEol(s, i + 1)
RECURSIVE NormTree(_)
NormTree(a) == <<a[1], a[2], [i \in 1..Len(a[3]) |-> NormTree(a[3][i])], NormEol(a[4], 1)>>
=============================================================================
