INIT Init
NEXT Next
