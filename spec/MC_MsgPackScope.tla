---------------------------- MODULE MC_MsgPackScope ----------------------------
(* M => A for CMsgPackReadObjectScope: every map of up to MaxPairs pairs (string   *)
(* and integer keys, values of different lengths incl. nested containers) in the   *)
(* width policies of Widths, and every history of up to MaxOps public calls        *)
(* (requests for present / absent / repeated keys, VisitKeys) followed by the      *)
(* destructor.  In every state the private cursor is consistent with the bytes     *)
(* (CursorConsistent) and the call found the key iff the abstract object has it,   *)
(* at the value of exactly that pair.                                              *)
EXTENDS MsgPackScope, MsgPackCorpus

CONSTANTS MaxPairs, MaxOps, Widths

KeysPool == << <<"str", <<97>>>>, <<"str", <<98, 98>>>>, U(1), U(200), U(-7) >>
ValsPool == { U(5), <<"str", <<120, 121, 122>>>>, <<"nil">>, <<"arr", <<U(1), <<"str", <<113>>>>>>>>, <<"map", <<<<<<"str", <<97>>>>, U(9)>>>>>>,
              <<"bin", <<1, 2, 3, 4>>>> }
\* request keys: the pool, an absent string key, an absent integer key, and an unsigned request for a key stored as negative
ReqKeys == { <<"ks", <<97>>>>, <<"ks", <<98, 98>>>>, <<"ki", 1>>, <<"ki", 200>>, <<"ki", -7>>, <<"ku", 1>>, <<"ku", 200>>, <<"ks", <<122>>>>, <<"ki", 3>> }

VARIABLES pairs,   \* the abstract object (sequence of <<key, value>>)
          w,       \* width policy of the encoding
          m,       \* M state
          n, last  \* number of calls so far, last call [op, key, found, at]
vars == <<pairs, w, m, n, last>>

Bytes == Enc(<<"map", pairs>>, w)
\* position behind the map header = where the first key starts
HeaderLen == Len(VarHdr(Len(pairs), w, 15, 128, 0, 222, 223))

Distinct(ps) == \A i, j \in 1..Len(ps) : i # j => ps[i][1] # ps[j][1]
Init == /\ \E k \in 0..MaxPairs : \E ks \in [1..k -> 1..Len(KeysPool)], vs \in [1..k -> ValsPool] :
              /\ pairs = [i \in 1..k |-> <<KeysPool[ks[i]], vs[i]>>]
              /\ Distinct([i \in 1..k |-> <<KeysPool[ks[i]], vs[i]>>])
        /\ w \in Widths
        /\ m = [start |-> 0, size |-> 0, index |-> 0, ck |-> FALSE, key |-> <<"nil">>, pos |-> 0, err |-> FALSE]
        /\ n = 0 /\ last = [op |-> "init", key |-> <<>>, found |-> FALSE, at |-> 0]

Start == /\ n = 0 /\ last.op = "init"
         /\ m' = MInitScope(HeaderLen + 1, Len(pairs))
         /\ last' = [op |-> "open", key |-> <<>>, found |-> FALSE, at |-> 0]
         /\ UNCHANGED <<pairs, w, n>>

Live == last.op \notin {"init", "dtor"} /\ n < MaxOps

DoRequest == /\ Live
             /\ \E k \in ReqKeys :
                  LET f == MFind(Bytes, m, k) r == MRequest(Bytes, m, k) IN
                  /\ m' = r.m
                  /\ last' = [op |-> "req", key |-> k, found |-> r.found, at |-> IF f.found THEN f.m.pos ELSE 0]
             /\ n' = n + 1 /\ UNCHANGED <<pairs, w>>
DoVisit == /\ Live
           /\ LET r == MVisit(Bytes, m) IN m' = r.m /\ last' = [op |-> "visit", key |-> r.keys, found |-> FALSE, at |-> 0]
           /\ n' = n + 1 /\ UNCHANGED <<pairs, w>>
DoDtor == /\ last.op \notin {"init", "dtor"}
          /\ m' = MDtor(Bytes, m) /\ last' = [op |-> "dtor", key |-> <<>>, found |-> FALSE, at |-> 0]
          /\ UNCHANGED <<pairs, w, n>>
Next == Start \/ DoRequest \/ DoVisit \/ DoDtor
Spec == Init /\ [][Next]_vars

\* ---- M-level invariants ----
NeverErr == ~m.err                                              \* documents are well formed: the scope never runs into an error
Cursor == last.op = "init" \/ CursorConsistent(Bytes, m)
\* ---- M => A ----
\* offset of the VALUE of the pair that carries key k in the abstract object (0 = absent)
AValueAt(k) == LET i == FindKey(pairs, k, 1) IN IF i = 0 THEN 0 ELSE KeyAt(Bytes, PairOffset(Bytes, HeaderLen + 1, i - 1)).p
RequestAgrees == last.op = "req" => (last.found <=> FindKey(pairs, last.key, 1) # 0) /\ last.at = AValueAt(last.key)
VisitAgrees == last.op = "visit" => last.key = [i \in 1..Len(pairs) |-> pairs[i][1]]
DtorAtEnd == last.op = "dtor" => m.pos = Len(Bytes) + 1 /\ m.index = m.size /\ ~m.ck
=============================================================================
