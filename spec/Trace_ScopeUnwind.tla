-------------------------- MODULE Trace_ScopeUnwind --------------------------
(* Trace validation: the scope life-cycle events recorded from the real code   *)
(* (BITSERIALIZER_VERIF hook in TArchiveScope / SerializationContext) during   *)
(* every fault-injection run must be accepted by the protocol of ScopeUnwind. *)
EXTENDS ScopeUnwind, Json, IOUtils
VARIABLE dummy
Traces == ndJsonDeserialize(IOEnv.TRACE)   \* [id, sc, outcome]
ASSUME \A i \in 1..Len(Traces) :
          LET t == Traces[i] v == Verdict(t.sc, t.outcome) IN
          v = "" \/ PrintT(<<"BAD", ToJson([id |-> t.id, why |-> v])>>)
ASSUME PrintT(<<"CHECKED", ToJson([n |-> Len(Traces)])>>)
Init == dummy = 0
Next == UNCHANGED dummy
=============================================================================
