-------------------------- MODULE Gen_EncodedStream --------------------------
(* C13 scenario generation.  TLC writes, for the real chunk size C, parametric texts                     *)
(*     text = filler^f \o <<boundary character>> \o tail                                                  *)
(* (filler = 'a': 1/2/4 bytes in UTF-8/16/32) so that a character of every encoded length is placed at     *)
(* every offset around the chunk boundaries, as complete byte streams per scheme and BOM flag, together    *)
(* with the truncation points to execute.  Environment: C, FLO, FHI (filler range), CLASSES, TAILS (how     *)
(* many of the boundary classes / tails to use), OUT.  The harness has no encoder of its own.              *)
EXTENDS EncodedStream, SequencesExt, Json, IOUtils

C     == atoi(IOEnv.C)
FLo   == atoi(IOEnv.FLO)
FHi   == atoi(IOEnv.FHI)
NClasses == atoi(IOEnv.CLASSES)
NTails   == atoi(IOEnv.TAILS)

Boundary == <<\h1F600, \h20AC, 0, \h10FFFF, \hE9, \hFEFF, \h7A, \hFFFF>>
TailsAll == << <<>>, <<\h7A>>, <<\h20AC, \h1F600>> >>
Filler   == \h61

Text(f, b, t) == [k \in 1..f |-> Filler] \o <<Boundary[b]>> \o TailsAll[t]

\* truncation points (number of bytes kept): the whole stream, every point of short streams, every point inside the
\* last 9 bytes, and the points around every multiple of the chunk size
Keeps(n) == {k \in 0..n : \/ k = n \/ n <= 24 \/ k >= n - 9
                          \/ \E q \in 1..((n \div C) + 1) : k >= (q * C) - 2 /\ k <= (q * C) + 2}

Row(e, bom, f, b, t) ==
  LET cps == Text(f, b, t)
      bytes == WriterBytes(e, bom, cps)
  IN [e |-> e, bom |-> bom, f |-> f, cps |-> cps, bytes |-> bytes, keeps |-> SetToSeq(Keeps(Len(bytes))), C |-> C]

Rows == SetToSeq({Row(e, bom, f, b, t) : e \in Schemes, bom \in BOOLEAN, f \in FLo..FHi, b \in 1..NClasses, t \in 1..NTails}
                 \cup (IF FLo = 0 THEN {[e |-> e, bom |-> bom, f |-> 0, cps |-> <<>>, bytes |-> WriterBytes(e, bom, <<>>),
                                          keeps |-> SetToSeq(0..Len(WriterBytes(e, bom, <<>>))), C |-> C] : e \in Schemes, bom \in BOOLEAN}
                       ELSE {}))

\* writer scenarios: the text split into parts, each part given in all three source widths
WParts == << << <<\h48, \h69>>, <<\hE9, \h20AC>>, <<\h1F600>> >>, << <<>>, <<\h10FFFF, 0, \hFEFF>> >>, << <<\h61>> >>, << >> >>
WRow(e, bom, k) ==
  [e |-> e, bom |-> bom, parts |-> WParts[k],
   p8 |-> [j \in DOMAIN WParts[k] |-> EncodeCps(8, WParts[k][j])],
   p16 |-> [j \in DOMAIN WParts[k] |-> EncodeCps(16, WParts[k][j])],
   p32 |-> [j \in DOMAIN WParts[k] |-> EncodeCps(32, WParts[k][j])]]
WRows == SetToSeq({WRow(e, bom, k) : e \in Schemes, bom \in BOOLEAN, k \in DOMAIN WParts})

\* ---- CSV documents through the stream entry point: header "a,b", rows "<name>,<note>", every line ended by CRLF (the last one
\* only when fb); the document has EXACTLY n characters (all ASCII unless `na`: then one note starts with U+20AC), so that the
\* encoded length sweeps every value around the multiples of the chunk size.  Lines of 7 characters, the last one takes the rest.
CsvHeader == CsvHeaderAB
CsvRows(n, fb, na) ==
  LET t     == n + (IF fb THEN 0 ELSE 2)          \* length if every line were terminated
      r     == t - 5
      nfull == IF r >= 12 THEN (r - 5) \div 7 ELSE 0
      rest  == r - (7 * nfull)
      nrows == IF r = 0 THEN 0 ELSE nfull + 1
      Name(k) == <<107 + (k % 10)>>
      Note(k, len) == [j \in 1..len |-> IF na /\ k = 1 /\ j = 1 THEN \h20AC ELSE 65 + ((k + j) % 26)]
  IN [k \in 1..nrows |-> << Name(k), Note(k, IF k <= nfull THEN 3 ELSE rest - 4) >>]
CsvLenOK(n, fb) == LET r == n + (IF fb THEN 0 ELSE 2) - 5 IN r = 0 \/ r >= 5
CsvNs == IF IOEnv.CSVMODE = "none" THEN {}
         ELSE IF C = 32 THEN (IF IOEnv.CSVMODE = "quick" THEN 3..72 ELSE 3..140)
         ELSE UNION {(k - (IF IOEnv.CSVMODE = "quick" THEN 2 ELSE 5))..(k + (IF IOEnv.CSVMODE = "quick" THEN 2 ELSE 5)) :
                     k \in (IF IOEnv.CSVMODE = "quick" THEN {64, 128, 256, 512} ELSE {64, 128, 192, 256, 384, 512, 768, 1024})}
CsvRow(e, bom, n, fb, na) ==
  LET rows == CsvRows(n, fb, na)  text == CsvRender(CsvHeader, rows, fb) IN
  [csv |-> TRUE, e |-> e, bom |-> bom, fb |-> fb, n |-> n, rows |-> rows, bytes |-> WriterBytes(e, bom, text), C |-> C]
CsvScenarios == SetToSeq({CsvRow(e, bom, n, fb, na) : e \in Schemes, bom \in BOOLEAN, fb \in BOOLEAN, na \in BOOLEAN,
                          n \in {x \in CsvNs : CsvLenOK(x, TRUE) \/ CsvLenOK(x, FALSE)}} )
CsvScenariosOK == SelectSeq(CsvScenarios, LAMBDA r : CsvLenOK(r.n, r.fb))

\* ---- DetectEncoding(std::istream&, skip): the text follows a preamble of p bytes that the caller has consumed
DPre == IF IOEnv.DMODE = "none" THEN {} ELSE {0, 1, 3, 16, 200}
DTexts == IF IOEnv.DMODE = "quick" THEN {Text(0, 2, 1), Text(3, 1, 2), Text(40, 2, 1), Text(2, 3, 1)}
          ELSE {Text(f, b, t) : f \in {0, 1, 3, 31, 40, 130}, b \in {1, 2, 3, 5}, t \in {1, 2}} \cup {<<>>}
DRow(e, bom, cps, p) ==
  [det |-> TRUE, e |-> e, bom |-> bom, cps |-> cps, p |-> p,
   pre |-> [k \in 1..p |-> IF k = 1 THEN 255 ELSE IF k = 2 THEN 254 ELSE 35],       \* the preamble even looks like a BOM
   bytes |-> WriterBytes(e, bom, cps)]
DRows == SetToSeq({DRow(e, bom, cps, p) : e \in Schemes, bom \in BOOLEAN, cps \in DTexts, p \in DPre})

ASSUME IOEnv.CSVOUT = "" \/ ndJsonSerialize(IOEnv.CSVOUT, CsvScenariosOK)
ASSUME IOEnv.DOUT = "" \/ ndJsonSerialize(IOEnv.DOUT, DRows)
ASSUME ndJsonSerialize(IOEnv.OUT, Rows)
ASSUME IOEnv.WOUT = "" \/ ndJsonSerialize(IOEnv.WOUT, WRows)
ASSUME PrintT(<<"ROWS", ToJson([n |-> Len(Rows), w |-> Len(WRows), csv |-> IF IOEnv.CSVOUT = "" THEN 0 ELSE Len(CsvScenariosOK), det |-> IF IOEnv.DOUT = "" THEN 0 ELSE Len(DRows)])>>)

VARIABLE dummy
Init == dummy = 0
Next == UNCHANGED dummy
=============================================================================
