-------------------------- MODULE Gen_EncodedStream --------------------------
(* C13 scenario generation.  TLC writes, for the real chunk size C, parametric texts                     *)
(*     text = filler^f \o <<boundary character>> \o tail                                                  *)
(* (filler = 'a': 1/2/4 bytes in UTF-8/16/32) so that a character of every encoded length is placed at     *)
(* every offset around the chunk boundaries, as complete byte streams per scheme and BOM flag, together    *)
(* with the truncation points to execute.  Environment: C, FLO, FHI (filler range), CLASSES, TAILS (how     *)
(* many of the boundary classes / tails to use), OUT.  The harness has no encoder of its own.              *)
EXTENDS EncodedStream, SequencesExt, Json, IOUtils

C     == atoi(IOEnv.C)
FLo   == atoi(IOEnv.FLO)
FHi   == atoi(IOEnv.FHI)
NClasses == atoi(IOEnv.CLASSES)
NTails   == atoi(IOEnv.TAILS)

Boundary == <<\h1F600, \h20AC, 0, \h10FFFF, \hE9, \hFEFF, \h7A, \hFFFF>>
TailsAll == << <<>>, <<\h7A>>, <<\h20AC, \h1F600>> >>
Filler   == \h61

Text(f, b, t) == [k \in 1..f |-> Filler] \o <<Boundary[b]>> \o TailsAll[t]

\* truncation points (number of bytes kept): the whole stream, every point of short streams, every point inside the
\* last 9 bytes, and the points around every multiple of the chunk size
Keeps(n) == {k \in 0..n : \/ k = n \/ n <= 24 \/ k >= n - 9
                          \/ \E q \in 1..((n \div C) + 1) : k >= (q * C) - 2 /\ k <= (q * C) + 2}

Row(e, bom, f, b, t) ==
  LET cps == Text(f, b, t)
      bytes == WriterBytes(e, bom, cps)
  IN [e |-> e, bom |-> bom, f |-> f, cps |-> cps, bytes |-> bytes, keeps |-> SetToSeq(Keeps(Len(bytes))), C |-> C]

Rows == SetToSeq({Row(e, bom, f, b, t) : e \in Schemes, bom \in BOOLEAN, f \in FLo..FHi, b \in 1..NClasses, t \in 1..NTails}
                 \cup (IF FLo = 0 THEN {[e |-> e, bom |-> bom, f |-> 0, cps |-> <<>>, bytes |-> WriterBytes(e, bom, <<>>),
                                          keeps |-> SetToSeq(0..Len(WriterBytes(e, bom, <<>>))), C |-> C] : e \in Schemes, bom \in BOOLEAN}
                       ELSE {}))

\* writer scenarios: the text split into parts, each part given in all three source widths
WParts == << << <<\h48, \h69>>, <<\hE9, \h20AC>>, <<\h1F600>> >>, << <<>>, <<\h10FFFF, 0, \hFEFF>> >>, << <<\h61>> >>, << >> >>
WRow(e, bom, k) ==
  [e |-> e, bom |-> bom, parts |-> WParts[k],
   p8 |-> [j \in DOMAIN WParts[k] |-> EncodeCps(8, WParts[k][j])],
   p16 |-> [j \in DOMAIN WParts[k] |-> EncodeCps(16, WParts[k][j])],
   p32 |-> [j \in DOMAIN WParts[k] |-> EncodeCps(32, WParts[k][j])]]
WRows == SetToSeq({WRow(e, bom, k) : e \in Schemes, bom \in BOOLEAN, k \in DOMAIN WParts})

ASSUME ndJsonSerialize(IOEnv.OUT, Rows)
ASSUME IOEnv.WOUT = "" \/ ndJsonSerialize(IOEnv.WOUT, WRows)
ASSUME PrintT(<<"ROWS", ToJson([n |-> Len(Rows), w |-> Len(WRows)])>>)

VARIABLE dummy
Init == dummy = 0
Next == UNCHANGED dummy
=============================================================================
