INIT Init
NEXT Next
